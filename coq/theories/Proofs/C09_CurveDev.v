(* Soundness of the curve-deviation checker (Checker/CurveDev.v): a VOk verdict decides ALL the
   (infinitely many) points of the checked parameter range, a VFar verdict is a genuine witness. *)
From Coq Require Import QArith Qminmax Qfield Lqa.
From LV Require Import Base.Prelude Model.Bezier Checker.Region Checker.CurveDev.
From LV Require Import Proofs.C10_Bezier Proofs.C01_Region.
Open Scope Q_scope.

(* ------------------------------------------------------------------ *)
(* compatibility with peq, convexity in plerp form *)

Lemma near_edge_peq tol2 p p' e : p =p= p' ->
  near_edge tol2 p e = true -> near_edge tol2 p' e = true.
Proof.
  intros [Ex Ey] Hn. rewrite near_edge_true in *.
  rewrite <- (dist2_point_eq p p' (fst e) (snd e) Ex Ey). exact Hn.
Qed.

Lemma near_plerp tol2 p q e s : 0 <= s -> s <= 1 ->
  near_edge tol2 p e = true -> near_edge tol2 q e = true ->
  near_edge tol2 (plerp p q s) e = true.
Proof.
  intros H0 H1 Hp Hq.
  apply (near_edge_peq tol2 (px p + s * (px q - px p), py p + s * (py q - py p))).
  - unfold peq, plerp, px, py; cbn [fst snd]. split; ring.
  - apply band_convex; assumption.
Qed.

Lemma quad_casteljau c u :
  q_sample c u =p=
  plerp (plerp (q_from c) (q_ctrl c) u) (plerp (q_ctrl c) (q_to c) u) u.
Proof. poly. Qed.

Lemma cubic_casteljau c u :
  c_sample c u =p=
  plerp (plerp (plerp (c_from c) (c_ctrl1 c) u) (plerp (c_ctrl1 c) (c_ctrl2 c) u) u)
        (plerp (plerp (c_ctrl1 c) (c_ctrl2 c) u) (plerp (c_ctrl2 c) (c_to c) u) u) u.
Proof. poly. Qed.

Lemma peq_sym a b : a =p= b -> b =p= a.
Proof. intros [H1 H2]. split; symmetry; assumption. Qed.

Lemma peq_trans a b c : a =p= b -> b =p= c -> a =p= c.
Proof. intros [H1 H2] [H3 H4]. split; etransitivity; eassumption. Qed.

Lemma quad_hull tol2 c e u : 0 <= u -> u <= 1 ->
  quad_near tol2 c e = true -> near_edge tol2 (q_sample c u) e = true.
Proof.
  intros H0 H1 Hn. unfold quad_near in Hn.
  apply andb_true_iff in Hn. destruct Hn as [Hn N2].
  apply andb_true_iff in Hn. destruct Hn as [N0 N1].
  apply (near_edge_peq tol2 _ _ e (peq_sym _ _ (quad_casteljau c u))).
  repeat apply near_plerp; assumption.
Qed.

Lemma cubic_hull tol2 c e u : 0 <= u -> u <= 1 ->
  cubic_near tol2 c e = true -> near_edge tol2 (c_sample c u) e = true.
Proof.
  intros H0 H1 Hn. unfold cubic_near in Hn.
  apply andb_true_iff in Hn. destruct Hn as [Hn N3].
  apply andb_true_iff in Hn. destruct Hn as [Hn N2].
  apply andb_true_iff in Hn. destruct Hn as [N0 N1].
  apply (near_edge_peq tol2 _ _ e (peq_sym _ _ (cubic_casteljau c u))).
  repeat apply near_plerp; assumption.
Qed.

(* reduced coordinates *)
Lemma qpt_red_peq p : qpt_red p =p= p.
Proof. unfold qpt_red, peq, px, py; cbn [fst snd]. split; apply Qred_correct. Qed.

Lemma near_edge_red tol2 p e : near_edge tol2 (qpt_red p) e = true -> near_edge tol2 p e = true.
Proof. apply near_edge_peq. apply qpt_red_peq. Qed.

Lemma quad_near_red tol2 c e : quad_near tol2 (quad_red c) e = true -> quad_near tol2 c e = true.
Proof.
  unfold quad_near, quad_red; cbn [q_from q_ctrl q_to]. intro Hn.
  apply andb_true_iff in Hn. destruct Hn as [Hn N2].
  apply andb_true_iff in Hn. destruct Hn as [N0 N1].
  rewrite (near_edge_red _ _ _ N0), (near_edge_red _ _ _ N1), (near_edge_red _ _ _ N2). reflexivity.
Qed.

Lemma cubic_near_red tol2 c e : cubic_near tol2 (cubic_red c) e = true -> cubic_near tol2 c e = true.
Proof.
  unfold cubic_near, cubic_red; cbn [c_from c_ctrl1 c_ctrl2 c_to]. intro Hn.
  apply andb_true_iff in Hn. destruct Hn as [Hn N3].
  apply andb_true_iff in Hn. destruct Hn as [Hn N2].
  apply andb_true_iff in Hn. destruct Hn as [N0 N1].
  rewrite (near_edge_red _ _ _ N0), (near_edge_red _ _ _ N1), (near_edge_red _ _ _ N2),
    (near_edge_red _ _ _ N3). reflexivity.
Qed.

Lemma far_peq tol2 es p p' : p =p= p' -> far tol2 es p -> far tol2 es p'.
Proof.
  intros [Ex Ey] Hf e Hin. rewrite <- (dist2_point_eq p p' (fst e) (snd e) Ex Ey).
  apply Hf. exact Hin.
Qed.

Lemma farb_red_far tol2 es p : farb tol2 es (qpt_red p) = true -> far tol2 es p.
Proof. intro H. apply (far_peq tol2 es (qpt_red p)); [apply qpt_red_peq | apply farb_spec; exact H]. Qed.

(* ------------------------------------------------------------------ *)
(* parameter ranges *)

Lemma range_param t0 t1 t : t0 <= t -> t <= t1 ->
  exists u, 0 <= u /\ u <= 1 /\ t0 + (t1 - t0) * u == t.
Proof.
  intros Ha Hb.
  destruct (Qlt_le_dec t0 t1) as [Hlt|Hge].
  - exists ((t - t0) / (t1 - t0)). repeat split.
    + apply Qle_shift_div_l; lra.
    + apply Qle_shift_div_r; lra.
    + field. lra.
  - exists 0. repeat split; lra.
Qed.

Lemma q_sample_eq c t t' : t == t' -> q_sample c t =p= q_sample c t'.
Proof. intro E. unf. split; rewrite E; reflexivity. Qed.

Lemma c_sample_eq c t t' : t == t' -> c_sample c t =p= c_sample c t'.
Proof. intro E. unf. split; rewrite E; reflexivity. Qed.

Lemma quad_piece_near tol2 c t0 t1 e t : t0 <= t -> t <= t1 ->
  quad_near tol2 (q_split_range c t0 t1) e = true ->
  near_edge tol2 (q_sample c t) e = true.
Proof.
  intros Ha Hb Hn.
  destruct (range_param t0 t1 t Ha Hb) as (u & U0 & U1 & EU).
  apply (near_edge_peq tol2 (q_sample (q_split_range c t0 t1) u)).
  - eapply peq_trans; [apply quad_split_range|]. apply q_sample_eq. exact EU.
  - apply quad_hull; assumption.
Qed.

Lemma cubic_piece_near tol2 c t0 t1 e t : t0 <= t -> t <= t1 ->
  cubic_near tol2 (c_split_range c t0 t1) e = true ->
  near_edge tol2 (c_sample c t) e = true.
Proof.
  intros Ha Hb Hn.
  destruct (range_param t0 t1 t Ha Hb) as (u & U0 & U1 & EU).
  apply (near_edge_peq tol2 (c_sample (c_split_range c t0 t1) u)).
  - eapply peq_trans; [apply cubic_split_range|]. apply c_sample_eq. exact EU.
  - apply cubic_hull; assumption.
Qed.

Lemma mid_bounds t0 t1 : t0 <= t1 ->
  t0 <= Qred ((t0 + t1) / 2) /\ Qred ((t0 + t1) / 2) <= t1.
Proof.
  intro H. rewrite Qred_correct.
  assert (E : (t0 + t1) / 2 * 2 == t0 + t1) by field.
  split; lra.
Qed.

(* ------------------------------------------------------------------ *)
(* the recursive checks *)

Lemma qcheck_eq fuel tol2 c t0 t1 segs :
  qcheck fuel tol2 c t0 t1 segs =
  if existsb (quad_near tol2 (quad_red (q_split_range c t0 t1))) segs then VOk
  else match fuel with
       | O => VUnknown
       | S f =>
           let tm := Qred ((t0 + t1) / 2) in
           if farb tol2 segs (qpt_red (q_sample c tm)) then VFar tm
           else match qcheck f tol2 c t0 tm segs with
                | VOk => qcheck f tol2 c tm t1 segs
                | v => v
                end
       end.
Proof. destruct fuel; reflexivity. Qed.

Lemma ccheck_eq fuel tol2 c t0 t1 segs :
  ccheck fuel tol2 c t0 t1 segs =
  if existsb (cubic_near tol2 (cubic_red (c_split_range c t0 t1))) segs then VOk
  else match fuel with
       | O => VUnknown
       | S f =>
           let tm := Qred ((t0 + t1) / 2) in
           if farb tol2 segs (qpt_red (c_sample c tm)) then VFar tm
           else match ccheck f tol2 c t0 tm segs with
                | VOk => ccheck f tol2 c tm t1 segs
                | v => v
                end
       end.
Proof. destruct fuel; reflexivity. Qed.

Lemma qcheck_ok : forall fuel tol2 c t0 t1 segs, t0 <= t1 ->
  qcheck fuel tol2 c t0 t1 segs = VOk ->
  forall t, t0 <= t -> t <= t1 -> near_poly tol2 segs (q_sample c t).
Proof.
  induction fuel as [|f IH]; intros tol2 c t0 t1 segs Hle Hq t Ha Hb;
    rewrite qcheck_eq in Hq;
    destruct (existsb (quad_near tol2 (quad_red (q_split_range c t0 t1))) segs) eqn:Ex.
  - apply existsb_exists in Ex. destruct Ex as (e & Hin & Hn).
    exists e. split; [exact Hin|]. apply near_edge_true.
    apply quad_near_red in Hn. eapply quad_piece_near; eassumption.
  - discriminate.
  - apply existsb_exists in Ex. destruct Ex as (e & Hin & Hn).
    exists e. split; [exact Hin|]. apply near_edge_true.
    apply quad_near_red in Hn. eapply quad_piece_near; eassumption.
  - cbv zeta in Hq.
    destruct (mid_bounds t0 t1 Hle) as [M0 M1].
    set (tm := Qred ((t0 + t1) / 2)) in *.
    destruct (farb tol2 segs (qpt_red (q_sample c tm))); [discriminate|].
    destruct (qcheck f tol2 c t0 tm segs) eqn:E1; try discriminate.
    destruct (Qlt_le_dec tm t) as [Hgt|Hlt].
    + apply (IH tol2 c tm t1 segs M1 Hq); lra.
    + apply (IH tol2 c t0 tm segs M0 E1); lra.
Qed.

Lemma qcheck_far : forall fuel tol2 c t0 t1 segs t, t0 <= t1 ->
  qcheck fuel tol2 c t0 t1 segs = VFar t ->
  t0 <= t /\ t <= t1 /\ far tol2 segs (q_sample c t).
Proof.
  induction fuel as [|f IH]; intros tol2 c t0 t1 segs t Hle Hq;
    rewrite qcheck_eq in Hq;
    destruct (existsb (quad_near tol2 (quad_red (q_split_range c t0 t1))) segs) eqn:Ex;
    try discriminate.
  cbv zeta in Hq.
  destruct (mid_bounds t0 t1 Hle) as [M0 M1].
  set (tm := Qred ((t0 + t1) / 2)) in *.
  destruct (farb tol2 segs (qpt_red (q_sample c tm))) eqn:Ef.
  - inversion Hq; subst t. split; [exact M0|]. split; [exact M1|].
    apply farb_red_far. exact Ef.
  - destruct (qcheck f tol2 c t0 tm segs) eqn:E1.
    + destruct (IH tol2 c tm t1 segs t M1 Hq) as (A & B & C).
      split; [lra|]. split; [exact B | exact C].
    + inversion Hq; subst t2.
      destruct (IH tol2 c t0 tm segs t M0 E1) as (A & B & C).
      split; [exact A|]. split; [lra | exact C].
    + discriminate.
Qed.

Lemma ccheck_ok : forall fuel tol2 c t0 t1 segs, t0 <= t1 ->
  ccheck fuel tol2 c t0 t1 segs = VOk ->
  forall t, t0 <= t -> t <= t1 -> near_poly tol2 segs (c_sample c t).
Proof.
  induction fuel as [|f IH]; intros tol2 c t0 t1 segs Hle Hq t Ha Hb;
    rewrite ccheck_eq in Hq;
    destruct (existsb (cubic_near tol2 (cubic_red (c_split_range c t0 t1))) segs) eqn:Ex.
  - apply existsb_exists in Ex. destruct Ex as (e & Hin & Hn).
    exists e. split; [exact Hin|]. apply near_edge_true.
    apply cubic_near_red in Hn. eapply cubic_piece_near; eassumption.
  - discriminate.
  - apply existsb_exists in Ex. destruct Ex as (e & Hin & Hn).
    exists e. split; [exact Hin|]. apply near_edge_true.
    apply cubic_near_red in Hn. eapply cubic_piece_near; eassumption.
  - cbv zeta in Hq.
    destruct (mid_bounds t0 t1 Hle) as [M0 M1].
    set (tm := Qred ((t0 + t1) / 2)) in *.
    destruct (farb tol2 segs (qpt_red (c_sample c tm))); [discriminate|].
    destruct (ccheck f tol2 c t0 tm segs) eqn:E1; try discriminate.
    destruct (Qlt_le_dec tm t) as [Hgt|Hlt].
    + apply (IH tol2 c tm t1 segs M1 Hq); lra.
    + apply (IH tol2 c t0 tm segs M0 E1); lra.
Qed.

Lemma ccheck_far : forall fuel tol2 c t0 t1 segs t, t0 <= t1 ->
  ccheck fuel tol2 c t0 t1 segs = VFar t ->
  t0 <= t /\ t <= t1 /\ far tol2 segs (c_sample c t).
Proof.
  induction fuel as [|f IH]; intros tol2 c t0 t1 segs t Hle Hq;
    rewrite ccheck_eq in Hq;
    destruct (existsb (cubic_near tol2 (cubic_red (c_split_range c t0 t1))) segs) eqn:Ex;
    try discriminate.
  cbv zeta in Hq.
  destruct (mid_bounds t0 t1 Hle) as [M0 M1].
  set (tm := Qred ((t0 + t1) / 2)) in *.
  destruct (farb tol2 segs (qpt_red (c_sample c tm))) eqn:Ef.
  - inversion Hq; subst t. split; [exact M0|]. split; [exact M1|].
    apply farb_red_far. exact Ef.
  - destruct (ccheck f tol2 c t0 tm segs) eqn:E1.
    + destruct (IH tol2 c tm t1 segs t M1 Hq) as (A & B & C).
      split; [lra|]. split; [exact B | exact C].
    + inversion Hq; subst t2.
      destruct (IH tol2 c t0 tm segs t M0 E1) as (A & B & C).
      split; [exact A|]. split; [lra | exact C].
    + discriminate.
Qed.

(* ------------------------------------------------------------------ *)
(* a whole flattening *)

Lemma collect_nil : forall vs i, collect i vs = [] -> forall v, In v vs -> v = VOk.
Proof.
  induction vs as [|a r IH]; intros i Hc v Hin; [destruct Hin|].
  cbn [collect] in Hc. destruct a; try discriminate.
  destruct Hin as [<-|Hin]; [reflexivity|]. eapply IH; eassumption.
Qed.

Lemma collect_in : forall vs i j v, In (j, v) (collect i vs) -> In v vs.
Proof.
  induction vs as [|a r IH]; intros i j v Hin; [destruct Hin|].
  cbn [collect] in Hin. destruct a.
  - right. eapply IH; eassumption.
  - destruct Hin as [E|Hin]; [inversion E; left; reflexivity | right; eapply IH; eassumption].
  - destruct Hin as [E|Hin]; [inversion E; left; reflexivity | right; eapply IH; eassumption].
Qed.

(* every range is ordered and inside [t0, 1] *)
Lemma ranges_bounds : forall ts t0 a b, ranges_ok t0 ts = true ->
  In (a, b) (ranges_from t0 ts) -> t0 <= a /\ a <= b /\ b <= 1.
Proof.
  induction ts as [|x r IH]; intros t0 a b Hok Hin; [destruct Hin|].
  cbn [ranges_ok] in Hok. apply andb_true_iff in Hok. destruct Hok as [Hle Hok].
  apply Qle_bool_iff in Hle.
  assert (Hx1 : x <= 1).
  { clear - Hok. revert x Hok. induction r as [|y r IHr]; intros x Hok; cbn [ranges_ok] in Hok.
    - apply Qeq_bool_iff in Hok. lra.
    - apply andb_true_iff in Hok. destruct Hok as [Hle Hok]. apply Qle_bool_iff in Hle.
      specialize (IHr y Hok). lra. }
  cbn [ranges_from] in Hin. destruct Hin as [E|Hin].
  - inversion E; subst a b. split; [lra|]. split; assumption.
  - destruct (IH x a b Hok Hin) as (A & B & C). split; [lra|]. split; assumption.
Qed.

(* the ranges cover [t0, 1] *)
Lemma ranges_cover : forall r x t0 t, ranges_ok t0 (x :: r) = true ->
  t0 <= t -> t <= 1 ->
  exists a b, In (a, b) (ranges_from t0 (x :: r)) /\ a <= t /\ t <= b.
Proof.
  induction r as [|y r IH]; intros x t0 t Hok Ha Hb.
  - cbn [ranges_ok] in Hok. apply andb_true_iff in Hok. destruct Hok as [Hle Hx].
    apply Qeq_bool_iff in Hx.
    exists t0, x. split; [left; reflexivity|]. split; lra.
  - change (ranges_ok t0 (x :: y :: r)) with (Qle_bool t0 x && ranges_ok x (y :: r)) in Hok.
    apply andb_true_iff in Hok. destruct Hok as [Hle Hok].
    destruct (Qlt_le_dec x t) as [Hgt|Hlt].
    + destruct (IH y x t Hok) as (a & b & Hin & A & B); [lra | exact Hb |].
      exists a, b. split; [right; exact Hin|]. split; assumption.
    + exists t0, x. split; [left; reflexivity|]. split; assumption.
Qed.

Lemma number_in {A} : forall (l : list A) k i x, In (i, x) (number k l) -> In x l.
Proof.
  induction l as [|y r IH]; intros k i x Hin; [destruct Hin|].
  cbn [number] in Hin. destruct Hin as [E|Hin].
  - inversion E. left. reflexivity.
  - right. eapply IH; eassumption.
Qed.

Lemma in_number {A} : forall (l : list A) k x, In x l -> exists i, In (i, x) (number k l).
Proof.
  induction l as [|y r IH]; intros k x Hin; [destruct Hin|].
  cbn [number]. destruct Hin as [<-|Hin].
  - exists k. left. reflexivity.
  - destruct (IH (S k) x Hin) as (i & Hi). exists i. right. exact Hi.
Qed.

Lemma skipn_in {A} : forall n (l : list A) x, In x (skipn n l) -> In x l.
Proof.
  induction n as [|n IH]; intros l x Hin; [exact Hin|].
  destruct l as [|y r]; [destruct Hin|]. right. apply IH. exact Hin.
Qed.

Lemma firstn_in {A} : forall n (l : list A) x, In x (firstn n l) -> In x l.
Proof.
  induction n as [|n IH]; intros l x Hin; [destruct Hin|].
  destruct l as [|y r]; [destruct Hin|]. cbn [firstn] in Hin.
  destruct Hin as [E|Hin]; [left; exact E | right; apply IH; exact Hin].
Qed.

Lemma window_in i segs e : In e (window i segs) -> In e segs.
Proof. unfold window. intro H. eapply skipn_in. eapply firstn_in. exact H. Qed.

Lemma near_poly_window tol2 i segs p : near_poly tol2 (window i segs) p -> near_poly tol2 segs p.
Proof. intros (e & Hin & Hd). exists e. split; [eapply window_in; exact Hin | exact Hd]. Qed.

Lemma qcheck_w_ok fuel tol2 c segs i a b : a <= b ->
  qcheck_w fuel tol2 c segs (i, (a, b)) = VOk ->
  forall t, a <= t -> t <= b -> near_poly tol2 segs (q_sample c t).
Proof.
  intros Hab Hw t Ha Hb. cbn [qcheck_w] in Hw.
  destruct (qcheck fuel tol2 c a b (window i segs)) eqn:E1.
  - eapply near_poly_window. exact (qcheck_ok fuel tol2 c a b _ Hab E1 t Ha Hb).
  - exact (qcheck_ok fuel tol2 c a b _ Hab Hw t Ha Hb).
  - exact (qcheck_ok fuel tol2 c a b _ Hab Hw t Ha Hb).
Qed.

Lemma qcheck_w_far fuel tol2 c segs i a b t :
  qcheck_w fuel tol2 c segs (i, (a, b)) = VFar t -> qcheck fuel tol2 c a b segs = VFar t.
Proof.
  intro Hw. cbn [qcheck_w] in Hw.
  destruct (qcheck fuel tol2 c a b (window i segs)); [discriminate | exact Hw | exact Hw].
Qed.

Lemma ccheck_w_ok fuel tol2 c segs i a b : a <= b ->
  ccheck_w fuel tol2 c segs (i, (a, b)) = VOk ->
  forall t, a <= t -> t <= b -> near_poly tol2 segs (c_sample c t).
Proof.
  intros Hab Hw t Ha Hb. cbn [ccheck_w] in Hw.
  destruct (ccheck fuel tol2 c a b (window i segs)) eqn:E1.
  - eapply near_poly_window. exact (ccheck_ok fuel tol2 c a b _ Hab E1 t Ha Hb).
  - exact (ccheck_ok fuel tol2 c a b _ Hab Hw t Ha Hb).
  - exact (ccheck_ok fuel tol2 c a b _ Hab Hw t Ha Hb).
Qed.

Lemma ccheck_w_far fuel tol2 c segs i a b t :
  ccheck_w fuel tol2 c segs (i, (a, b)) = VFar t -> ccheck fuel tol2 c a b segs = VFar t.
Proof.
  intro Hw. cbn [ccheck_w] in Hw.
  destruct (ccheck fuel tol2 c a b (window i segs)); [discriminate | exact Hw | exact Hw].
Qed.

Lemma quad_flat_sound : forall fuel tol2 c ts pts,
  quad_flat_check fuel tol2 c ts pts = Some [] ->
  forall t, 0 <= t -> t <= 1 -> near_poly tol2 (segs_of pts) (q_sample c t).
Proof.
  intros fuel tol2 c ts pts Hc t H0 H1. unfold quad_flat_check in Hc.
  destruct (ranges_ok 0 ts) eqn:Hok; [|discriminate].
  inversion Hc as [Hnil]. clear Hc.
  destruct ts as [|x r].
  { cbn in Hok. discriminate. }
  destruct (ranges_cover r x 0 t Hok H0 H1) as (a & b & Hin & A & B).
  destruct (ranges_bounds _ _ _ _ Hok Hin) as (_ & Hab & _).
  destruct (in_number _ 0%nat _ Hin) as (i & Hi).
  assert (Hv : qcheck_w fuel tol2 c (segs_of pts) (i, (a, b)) = VOk).
  { apply (collect_nil _ _ Hnil).
    apply (in_map (qcheck_w fuel tol2 c (segs_of pts)) _ _ Hi). }
  exact (qcheck_w_ok fuel tol2 c _ i a b Hab Hv t A B).
Qed.

Lemma cubic_flat_sound : forall fuel tol2 c ts pts,
  cubic_flat_check fuel tol2 c ts pts = Some [] ->
  forall t, 0 <= t -> t <= 1 -> near_poly tol2 (segs_of pts) (c_sample c t).
Proof.
  intros fuel tol2 c ts pts Hc t H0 H1. unfold cubic_flat_check in Hc.
  destruct (ranges_ok 0 ts) eqn:Hok; [|discriminate].
  inversion Hc as [Hnil]. clear Hc.
  destruct ts as [|x r].
  { cbn in Hok. discriminate. }
  destruct (ranges_cover r x 0 t Hok H0 H1) as (a & b & Hin & A & B).
  destruct (ranges_bounds _ _ _ _ Hok Hin) as (_ & Hab & _).
  destruct (in_number _ 0%nat _ Hin) as (i & Hi).
  assert (Hv : ccheck_w fuel tol2 c (segs_of pts) (i, (a, b)) = VOk).
  { apply (collect_nil _ _ Hnil).
    apply (in_map (ccheck_w fuel tol2 c (segs_of pts)) _ _ Hi). }
  exact (ccheck_w_ok fuel tol2 c _ i a b Hab Hv t A B).
Qed.

Lemma quad_flat_witness : forall fuel tol2 c ts pts l i t,
  quad_flat_check fuel tol2 c ts pts = Some l -> In (i, VFar t) l ->
  0 <= t /\ t <= 1 /\ far tol2 (segs_of pts) (q_sample c t).
Proof.
  intros fuel tol2 c ts pts l i t Hc Hin. unfold quad_flat_check in Hc.
  destruct (ranges_ok 0 ts) eqn:Hok; [|discriminate].
  inversion Hc as [Hl]. clear Hc. subst l.
  apply collect_in in Hin. apply in_map_iff in Hin.
  destruct Hin as ([k [a b]] & Hv & Hr).
  apply number_in in Hr. apply qcheck_w_far in Hv.
  destruct (ranges_bounds _ _ _ _ Hok Hr) as (A & Hab & B).
  destruct (qcheck_far _ _ _ _ _ _ _ Hab Hv) as (P & Q & R).
  split; [lra|]. split; [lra | exact R].
Qed.

Lemma cubic_flat_witness : forall fuel tol2 c ts pts l i t,
  cubic_flat_check fuel tol2 c ts pts = Some l -> In (i, VFar t) l ->
  0 <= t /\ t <= 1 /\ far tol2 (segs_of pts) (c_sample c t).
Proof.
  intros fuel tol2 c ts pts l i t Hc Hin. unfold cubic_flat_check in Hc.
  destruct (ranges_ok 0 ts) eqn:Hok; [|discriminate].
  inversion Hc as [Hl]. clear Hc. subst l.
  apply collect_in in Hin. apply in_map_iff in Hin.
  destruct Hin as ([k [a b]] & Hv & Hr).
  apply number_in in Hr. apply ccheck_w_far in Hv.
  destruct (ranges_bounds _ _ _ _ Hok Hr) as (A & Hab & B).
  destruct (ccheck_far _ _ _ _ _ _ _ Hab Hv) as (P & Q & R).
  split; [lra|]. split; [lra | exact R].
Qed.

(* ------------------------------------------------------------------ *)
(* vertices *)

Lemma quad_vertices_sound : forall tol2 c ts pts i0,
  quad_vertices_far tol2 c ts pts i0 = [] ->
  forall k t p, nth_error ts k = Some t -> nth_error pts k = Some p ->
  norm2 (psub p (q_sample c t)) <= tol2.
Proof.
  intros tol2 c. induction ts as [|x tr IH]; intros pts i0 Hv k t p Ht Hp.
  - destruct k; discriminate.
  - destruct pts as [|y pr]; [destruct k; discriminate|].
    cbn [quad_vertices_far] in Hv. apply app_eq_nil in Hv. destruct Hv as [Hh Hr].
    destruct k as [|k]; cbn [nth_error] in Ht, Hp.
    + inversion Ht; inversion Hp; subst x y.
      destruct (Qle_bool (norm2 (psub p (q_sample c t))) tol2) eqn:E; [|discriminate].
      apply Qle_bool_iff. exact E.
    + eapply IH; eassumption.
Qed.

Lemma cubic_vertices_sound : forall tol2 c ts pts i0,
  cubic_vertices_far tol2 c ts pts i0 = [] ->
  forall k t p, nth_error ts k = Some t -> nth_error pts k = Some p ->
  norm2 (psub p (c_sample c t)) <= tol2.
Proof.
  intros tol2 c. induction ts as [|x tr IH]; intros pts i0 Hv k t p Ht Hp.
  - destruct k; discriminate.
  - destruct pts as [|y pr]; [destruct k; discriminate|].
    cbn [cubic_vertices_far] in Hv. apply app_eq_nil in Hv. destruct Hv as [Hh Hr].
    destruct k as [|k]; cbn [nth_error] in Ht, Hp.
    + inversion Ht; inversion Hp; subst x y.
      destruct (Qle_bool (norm2 (psub p (c_sample c t))) tol2) eqn:E; [|discriminate].
      apply Qle_bool_iff. exact E.
    + eapply IH; eassumption.
Qed.

Print Assumptions qcheck_ok.
Print Assumptions qcheck_far.
Print Assumptions ccheck_ok.
Print Assumptions ccheck_far.
Print Assumptions quad_flat_sound.
Print Assumptions cubic_flat_sound.
Print Assumptions quad_flat_witness.
Print Assumptions cubic_flat_witness.
Print Assumptions quad_vertices_sound.
Print Assumptions cubic_vertices_sound.
