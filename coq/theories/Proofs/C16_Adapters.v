(* C16 proofs: flattening adapters (Model/Flatten.v) and transforming adapters (PathStore/PathSpec). *)
From LV Require Import Base.Prelude Model.Flatten Model.PathStore Model.PathSpec Proofs.C14_PathStore.

(* ---- definitions restated identically to Props/C16.v ---- *)
Definition curve_ok {P T} (is_one : T -> bool) (pts : list (P * T)) (to : P) : Prop :=
  exists front tl, pts = front ++ [(to, tl)] /\ is_one tl = true /\
                   Forall (fun pt => is_one (snd pt) = false) front.
Definition ops_ok {P T A} (is_one : T -> bool) (ops : list (fop P T A)) : Prop :=
  Forall (fun o => match o with FCurve _ _ _ pts to _ => curve_ok is_one pts to | _ => True end) ops.

Definition endpoints {P T A} (ops : list (fop P T A)) : list (P * list A) :=
  flat_map (fun o => match o with
                     | FBegin _ _ _ p a | FLine _ _ _ p a => [(p, a)]
                     | FCurve _ _ _ _ to a => [(to, a)]
                     | FEnd _ _ _ _ => [] end) ops.
Definition call_endpoint {P A} (c : fcall P A) : list (P * list A) :=
  match c with CBegin _ _ p a | CLine _ _ p a => [(p, a)] | CEnd _ _ _ => [] end.

Fixpoint subseq {X} (s l : list X) : Prop :=
  match s, l with
  | [], _ => True
  | _ :: _, [] => False
  | x :: s', y :: l' => (x = y /\ subseq s' l') \/ subseq s l'
  end.

Fixpoint attrs_spec {P T A} (lerp : A -> A -> T -> A) (is_one : T -> bool) (cur : list A) (ops : list (fop P T A))
  : list (list A) :=
  match ops with
  | [] => []
  | FBegin _ _ _ _ a :: r => a :: attrs_spec lerp is_one a r
  | FLine _ _ _ _ a :: r => a :: attrs_spec lerp is_one a r
  | FCurve _ _ _ pts _ a :: r =>
      map (fun pt => interp T A lerp is_one cur a (snd pt)) pts ++ attrs_spec lerp is_one a r
  | FEnd _ _ _ _ :: r => attrs_spec lerp is_one cur r
  end.
Definition call_attrs {P A} (c : fcall P A) : list (list A) :=
  match c with CBegin _ _ _ a | CLine _ _ _ a => [a] | CEnd _ _ _ => [] end.

Definition call_pos {P A} (c : fcall P A) : option P :=
  match c with CLine _ _ p _ => Some p | _ => None end.

Definition tr_op (f : pt -> pt) (o : bop) : bop :=
  match o with
  | OBegin p a => OBegin (f p) a | OLine p a => OLine (f p) a
  | OQuad c p a => OQuad (f c) (f p) a | OCubic c1 c2 p a => OCubic (f c1) (f c2) (f p) a
  | OEnd c => OEnd c
  end.
Definition tr_event (f : pt -> pt) (e : attr_event) : attr_event :=
  map_event (fun ep => (f (fst ep), snd ep)) f e.
Definition tr_sub (f : pt -> pt) (s : subpath) : subpath :=
  mkSub (f (sp_at s)) (sp_attrs s)
        (map (fun e => match e with
                       | ELine p a => ELine (f p) a
                       | EQuad c p a => EQuad (f c) (f p) a
                       | ECubic c1 c2 p a => ECubic (f c1) (f c2) (f p) a end) (sp_edges s))
        (sp_close s).

(* ---- subseq facts ---- *)
Lemma subseq_skip {X} (y : X) : forall s l, subseq s l -> subseq s (y :: l).
Proof. intros [|x s'] l H; cbn [subseq]; auto. Qed.

Lemma subseq_app_l {X} (l1 : list X) : forall s l, subseq s l -> subseq s (l1 ++ l).
Proof. induction l1 as [|y l1 IH]; intros s l H; cbn [app]; auto using subseq_skip. Qed.

Lemma subseq_cons {X} (x : X) s l : subseq s l -> subseq (x :: s) (x :: l).
Proof. intros H. cbn [subseq]. left. auto. Qed.

(* ---- flattening adapters ---- *)
Lemma flatten_keeps_endpoints : forall (P T A : Type) lerp is_one prev (ops : list (fop P T A)),
  ops_ok is_one ops ->
  subseq (endpoints ops) (flat_map call_endpoint (fb_run P T A lerp is_one prev ops)).
Proof.
  intros P T A lerp is_one prev ops Hok. revert prev.
  induction Hok as [|o r Ho Hr IH]; intros prev.
  - exact I.
  - cbn [fb_run]. destruct o as [p a|p a|pts to a|c]; cbn [fb_step];
      rewrite flat_map_app; unfold endpoints; cbn [flat_map]; fold (@endpoints P T A r).
    + cbn [call_endpoint app]. apply subseq_cons, IH.
    + cbn [call_endpoint app]. apply subseq_cons, IH.
    + destruct Ho as (front & tl & -> & Hone & _).
      rewrite map_app, flat_map_app. cbn [map flat_map fst snd call_endpoint app].
      unfold interp at 2. rewrite Hone. rewrite <- app_assoc.
      apply subseq_app_l. cbn [app]. apply subseq_cons, IH.
    + cbn [call_endpoint app]. apply IH.
Qed.

Lemma flatten_attrs_lerp : forall (P T A : Type) lerp is_one prev (ops : list (fop P T A)),
  flat_map call_attrs (fb_run P T A lerp is_one prev ops) = attrs_spec lerp is_one prev ops.
Proof.
  intros P T A lerp is_one prev ops. revert prev.
  induction ops as [|o r IH]; intros prev; [reflexivity|].
  cbn [fb_run]. destruct o as [p a|p a|pts to a|c]; cbn [fb_step attrs_spec];
    rewrite flat_map_app, IH.
  - reflexivity.
  - reflexivity.
  - f_equal. clear. induction pts as [|pt pts IHp]; [reflexivity|].
    cbn [map flat_map call_attrs app]. rewrite IHp. reflexivity.
  - reflexivity.
Qed.

Lemma flatten_builder_eq_iter : forall (P T A : Type) lerp is_one prev (ops : list (fop P T A)),
  map call_pos (fb_run P T A lerp is_one prev ops) = fi_run P T A ops.
Proof.
  intros P T A lerp is_one prev ops. revert prev. unfold fi_run.
  induction ops as [|o r IH]; intros prev; [reflexivity|].
  cbn [fb_run flat_map]. destruct o as [p a|p a|pts to a|c]; cbn [fb_step fi_step];
    rewrite map_app, IH.
  - reflexivity.
  - reflexivity.
  - f_equal. rewrite map_map. reflexivity.
  - reflexivity.
Qed.

(* ---- transforming ---- *)
Definition tr_edge (f : pt -> pt) (e : edge) : edge :=
  match e with
  | ELine p a => ELine (f p) a
  | EQuad c p a => EQuad (f c) (f p) a
  | ECubic c1 c2 p a => ECubic (f c1) (f c2) (f p) a
  end.

Lemma tr_sub_edges f s : sp_edges (tr_sub f s) = map (tr_edge f) (sp_edges s).
Proof. reflexivity. Qed.

Lemma tr_attrs_ok f n prog : attrs_ok n prog -> attrs_ok n (map (tr_sub f) prog).
Proof.
  unfold attrs_ok. intros H. apply Forall_map. eapply Forall_impl; [|exact H].
  intros s [Ha He]. split; [exact Ha|]. rewrite tr_sub_edges. apply Forall_map.
  eapply Forall_impl; [|exact He]. intros e. unfold edge_attrs_ok. destruct e; exact (fun h => h).
Qed.

Lemma tr_ops_of f prog : ops_of (map (tr_sub f) prog) = map (tr_op f) (ops_of prog).
Proof.
  unfold ops_of. induction prog as [|s r IH]; [reflexivity|].
  cbn [map flat_map]. rewrite map_app, IH. f_equal.
  unfold ops_of_sub. rewrite tr_sub_edges. cbn [map tr_op sp_at sp_attrs sp_close tr_sub].
  f_equal. rewrite map_app, !map_map. cbn [map tr_op]. f_equal.
  apply map_ext. intros e. destruct e; reflexivity.
Qed.

Definition tr_ep (f : pt -> pt) (ep : pt * list Z) : pt * list Z := (f (fst ep), snd ep).

Lemma tr_spec_edges f : forall es cur,
  spec_edges (tr_ep f cur) (map (tr_edge f) es)
  = (map (tr_event f) (fst (spec_edges cur es)), tr_ep f (snd (spec_edges cur es))).
Proof.
  induction es as [|e r IH]; intros cur; [reflexivity|].
  cbn [map spec_edges].
  replace (edge_to (tr_edge f e)) with (tr_ep f (edge_to e)) by (destruct e; reflexivity).
  rewrite IH. destruct (spec_edges (edge_to e) r) as [evs last]. cbn [fst snd map].
  destruct e; reflexivity.
Qed.

Lemma tr_spec_events f prog :
  spec_events (map (tr_sub f) prog) = map (tr_event f) (spec_events prog).
Proof.
  unfold spec_events. induction prog as [|s r IH]; [reflexivity|].
  cbn [map flat_map]. rewrite map_app, IH. f_equal.
  unfold spec_sub. rewrite tr_sub_edges. cbn [sp_at sp_attrs sp_close tr_sub].
  change (f (sp_at s), sp_attrs s) with (tr_ep f (sp_at s, sp_attrs s)).
  rewrite tr_spec_edges. destruct (spec_edges (sp_at s, sp_attrs s) (sp_edges s)) as [evs last].
  cbn [fst snd map]. rewrite map_app. reflexivity.
Qed.

Lemma transform_three_ways : forall (f : pt -> pt) n prog, attrs_ok n prog ->
  iter_attr (build n (map (tr_op f) (ops_of prog)))
  = option_map (map (tr_event f)) (iter_attr (build n (ops_of prog)))
  /\ iter_attr (build n (map (tr_op f) (ops_of prog))) = Some (spec_events (map (tr_sub f) prog)).
Proof.
  intros f n prog Hok.
  assert (E : iter_attr (build n (map (tr_op f) (ops_of prog))) = Some (spec_events (map (tr_sub f) prog))).
  { rewrite <- tr_ops_of. apply iter_attr_spec. apply tr_attrs_ok. exact Hok. }
  split; [|exact E].
  rewrite E, (iter_attr_spec n prog Hok). cbn [option_map]. rewrite tr_spec_events. reflexivity.
Qed.
