(* Proofs for C12: exactness of the segment/segment and segment/line intersection queries
   of Model/LineInter.v over the rationals. *)
From Coq Require Import QArith Qabs Lqa Lia.
From LV Require Import Base.Prelude Model.Bezier Model.LineInter.
Open Scope Q_scope.

(* ------------------------------------------------------------ boolean tests *)
Lemma Qltb_true a b : Qltb a b = true <-> a < b.
Proof.
  unfold Qltb. rewrite negb_true_iff. split.
  - intros H. apply Qnot_le_lt. intro H1. apply Qle_bool_iff in H1. congruence.
  - intros H. destruct (Qle_bool b a) eqn:E; auto.
    apply Qle_bool_iff in E. exfalso. exact (Qlt_not_le _ _ H E).
Qed.

Lemma Qltb_false a b : Qltb a b = false <-> b <= a.
Proof. unfold Qltb. rewrite negb_false_iff. apply Qle_bool_iff. Qed.

Lemma Qeq_bool_false a b : Qeq_bool a b = false <-> ~ a == b.
Proof.
  split.
  - apply Qeq_bool_neq.
  - intros H. destruct (Qeq_bool a b) eqn:E; auto. apply Qeq_bool_iff in E. contradiction.
Qed.

Lemma peqb_true a b : peqb a b = true <-> a =p= b.
Proof. unfold peqb, peq. rewrite andb_true_iff, !Qeq_bool_iff. tauto. Qed.

Lemma peqb_false a b : peqb a b = false <-> ~ a =p= b.
Proof.
  rewrite <- peqb_true. destruct (peqb a b); split; intros; try congruence; auto.
Qed.

Lemma peq_sym a b : a =p= b -> b =p= a.
Proof. unfold peq. intros [H1 H2]. split; symmetry; assumption. Qed.

(* ------------------------------------------------------------ sign / abs *)
Lemma sign_abs D : ~ D == 0 -> 0 < Qabs D /\ qsignum D * D == Qabs D.
Proof.
  intros HD. unfold qsignum. destruct (Qltb D 0) eqn:E.
  - apply Qltb_true in E. rewrite Qabs_neg by lra. split; lra.
  - apply Qltb_false in E. rewrite Qabs_pos by lra.
    assert (0 < D).
    { destruct (Qlt_le_dec 0 D) as [H|H]; auto. exfalso. apply HD. lra. }
    split; lra.
Qed.

Lemma param_sound D N : ~ D == 0 ->
  Qltb (N * qsignum D) 0 = false -> Qltb (Qabs D) (N * qsignum D) = false ->
  0 <= N * qsignum D / Qabs D /\ N * qsignum D / Qabs D <= 1 /\
  N * qsignum D / Qabs D * D == N.
Proof.
  intros HD H0 H1. apply Qltb_false in H0. apply Qltb_false in H1.
  destruct (sign_abs D HD) as [Ha Hs].
  set (a := Qabs D) in *. set (s := qsignum D) in *.
  split; [|split].
  - apply Qle_shift_div_l; [assumption | lra].
  - apply Qle_shift_div_r; [assumption | lra].
  - unfold Qdiv. setoid_replace (N * s * / a * D) with (N * (s * D) * / a) by ring.
    rewrite Hs. field. lra.
Qed.

Lemma param_complete D N t : ~ D == 0 -> t * D == N -> 0 <= t -> t <= 1 ->
  Qltb (N * qsignum D) 0 = false /\ Qltb (Qabs D) (N * qsignum D) = false /\
  N * qsignum D / Qabs D == t.
Proof.
  intros HD HN H0 H1.
  destruct (sign_abs D HD) as [Ha Hs].
  set (a := Qabs D) in *. set (s := qsignum D) in *.
  assert (Hr : N * s == t * a).
  { rewrite <- HN, <- Hs. ring. }
  split; [|split].
  - apply Qltb_false. rewrite Hr. apply Qmult_le_0_compat; lra.
  - apply Qltb_false. rewrite Hr.
    setoid_replace a with (1 * a) at 2 by ring.
    apply Qmult_le_compat_r; lra.
  - rewrite Hr. field. lra.
Qed.

(* ------------------------------------------------------------ Cramer *)
Definition dD (s o : lineseg) : Q :=
  cross (psub (l_to s) (l_from s)) (psub (l_to o) (l_from o)).
Definition nT (s o : lineseg) : Q :=
  cross (psub (l_from o) (l_from s)) (psub (l_to o) (l_from o)).
Definition nU (s o : lineseg) : Q :=
  cross (psub (l_from o) (l_from s)) (psub (l_to s) (l_from s)).

Lemma seg_intersection_t_unfold s o :
  seg_intersection_t s o =
  if peqb (l_to s) (l_to o) || peqb (l_from s) (l_from o)
     || peqb (l_from s) (l_to o) || peqb (l_to s) (l_from o) then None
  else if Qeq_bool (dD s o) 0 then None
  else if Qltb (nT s o * qsignum (dD s o)) 0 || Qltb (Qabs (dD s o)) (nT s o * qsignum (dD s o))
          || Qltb (nU s o * qsignum (dD s o)) 0 || Qltb (Qabs (dD s o)) (nU s o * qsignum (dD s o))
       then None
  else Some (nT s o * qsignum (dD s o) / Qabs (dD s o), nU s o * qsignum (dD s o) / Qabs (dD s o)).
Proof. reflexivity. Qed.

Ltac coords s o :=
  destruct s as [[a1 a2] [b1 b2]]; destruct o as [[c1 c2] [e1 e2]];
  unfold dD, nT, nU, l_sample, plerp, peq, cross, psub, px, py in *;
  cbn [l_from l_to fst snd] in *.

Lemma cramer s o t u : l_sample s t =p= l_sample o u ->
  t * dD s o == nT s o /\ u * dD s o == nU s o.
Proof.
  coords s o. intros [H1 H2]. split.
  - assert (H : t * ((b1 - a1) * (e2 - c2) - (b2 - a2) * (e1 - c1))
                - ((c1 - a1) * (e2 - c2) - (c2 - a2) * (e1 - c1))
                == (((1 - t) * a1 + t * b1) - ((1 - u) * c1 + u * e1)) * (e2 - c2)
                   - (((1 - t) * a2 + t * b2) - ((1 - u) * c2 + u * e2)) * (e1 - c1)) by ring.
    rewrite H1, H2 in H. lra.
  - assert (H : u * ((b1 - a1) * (e2 - c2) - (b2 - a2) * (e1 - c1))
                - ((c1 - a1) * (b2 - a2) - (c2 - a2) * (b1 - a1))
                == (((1 - t) * a1 + t * b1) - ((1 - u) * c1 + u * e1)) * (b2 - a2)
                   - (((1 - t) * a2 + t * b2) - ((1 - u) * c2 + u * e2)) * (b1 - a1)) by ring.
    rewrite H1, H2 in H. lra.
Qed.

Lemma cramer_inv s o t u : ~ dD s o == 0 ->
  t * dD s o == nT s o -> u * dD s o == nU s o -> l_sample s t =p= l_sample o u.
Proof.
  coords s o. intros HD HT HU.
  set (D := (b1 - a1) * (e2 - c2) - (b2 - a2) * (e1 - c1)) in *.
  split; apply Qmult_inj_r with (z := D); try assumption.
  - assert (H : ((1 - t) * a1 + t * b1) * D - ((1 - u) * c1 + u * e1) * D
                == (t * D - ((c1 - a1) * (e2 - c2) - (c2 - a2) * (e1 - c1))) * (b1 - a1)
                   - (u * D - ((c1 - a1) * (b2 - a2) - (c2 - a2) * (b1 - a1))) * (e1 - c1))
      by (unfold D; ring).
    rewrite HT, HU in H. lra.
  - assert (H : ((1 - t) * a2 + t * b2) * D - ((1 - u) * c2 + u * e2) * D
                == (t * D - ((c1 - a1) * (e2 - c2) - (c2 - a2) * (e1 - c1))) * (b2 - a2)
                   - (u * D - ((c1 - a1) * (b2 - a2) - (c2 - a2) * (b1 - a1))) * (e2 - c2))
      by (unfold D; ring).
    rewrite HT, HU in H. lra.
Qed.

Lemma shares_endpoint_b s o :
  peqb (l_to s) (l_to o) || peqb (l_from s) (l_from o)
  || peqb (l_from s) (l_to o) || peqb (l_to s) (l_from o) = true <-> shares_endpoint s o.
Proof. unfold shares_endpoint. rewrite !orb_true_iff, !peqb_true. tauto. Qed.

Lemma shares_endpoint_b_false s o :
  peqb (l_to s) (l_to o) || peqb (l_from s) (l_from o)
  || peqb (l_from s) (l_to o) || peqb (l_to s) (l_from o) = false <-> ~ shares_endpoint s o.
Proof.
  rewrite <- shares_endpoint_b.
  destruct (peqb (l_to s) (l_to o) || peqb (l_from s) (l_from o)
            || peqb (l_from s) (l_to o) || peqb (l_to s) (l_from o));
    split; intros; try congruence; auto.
Qed.

(* ------------------------------------------------------------ segment / segment *)
Lemma inter_sound : forall s o t u, seg_intersection_t s o = Some (t, u) ->
  meet_at s o t u /\ ~ parallel s o /\ ~ shares_endpoint s o.
Proof.
  intros s o t u. rewrite seg_intersection_t_unfold.
  destruct (peqb (l_to s) (l_to o) || peqb (l_from s) (l_from o)
            || peqb (l_from s) (l_to o) || peqb (l_to s) (l_from o)) eqn:Esh; [discriminate|].
  apply shares_endpoint_b_false in Esh.
  destruct (Qeq_bool (dD s o) 0) eqn:ED; [discriminate|].
  apply Qeq_bool_false in ED.
  destruct (Qltb (nT s o * qsignum (dD s o)) 0) eqn:E1; [discriminate|].
  destruct (Qltb (Qabs (dD s o)) (nT s o * qsignum (dD s o))) eqn:E2; [discriminate|].
  destruct (Qltb (nU s o * qsignum (dD s o)) 0) eqn:E3; [discriminate|].
  destruct (Qltb (Qabs (dD s o)) (nU s o * qsignum (dD s o))) eqn:E4; [discriminate|].
  cbn [orb]. intros H. injection H as <- <-.
  destruct (param_sound _ _ ED E1 E2) as (T0 & T1 & TD).
  destruct (param_sound _ _ ED E3 E4) as (U0 & U1 & UD).
  split; [|split; [exact ED | exact Esh]].
  unfold meet_at. repeat (split; [assumption|]).
  apply cramer_inv; assumption.
Qed.

Lemma inter_complete : forall s o t u,
  ~ shares_endpoint s o -> ~ parallel s o -> meet_at s o t u ->
  exists t' u', seg_intersection_t s o = Some (t', u') /\ t' == t /\ u' == u.
Proof.
  intros s o t u Hsh Hpar (T0 & T1 & U0 & U1 & Hm).
  change (~ dD s o == 0) in Hpar.
  destruct (cramer _ _ _ _ Hm) as [HT HU].
  destruct (param_complete _ _ _ Hpar HT T0 T1) as (E1 & E2 & Et).
  destruct (param_complete _ _ _ Hpar HU U0 U1) as (E3 & E4 & Eu).
  rewrite seg_intersection_t_unfold.
  apply shares_endpoint_b_false in Hsh. rewrite Hsh.
  apply Qeq_bool_false in Hpar. rewrite Hpar.
  rewrite E1, E2, E3, E4. cbn [orb].
  eexists; eexists; split; [reflexivity|]. split; assumption.
Qed.

Lemma inter_unique : forall s o t u t' u',
  ~ parallel s o -> meet_at s o t u -> meet_at s o t' u' -> t == t' /\ u == u'.
Proof.
  intros s o t u t' u' Hpar (_ & _ & _ & _ & Hm) (_ & _ & _ & _ & Hm').
  change (~ dD s o == 0) in Hpar.
  destruct (cramer _ _ _ _ Hm) as [HT HU].
  destruct (cramer _ _ _ _ Hm') as [HT' HU'].
  split; apply Qmult_inj_r with (z := dD s o); try assumption.
  - rewrite HT, HT'. reflexivity.
  - rewrite HU, HU'. reflexivity.
Qed.

Lemma inter_parallel_none : forall s o, parallel s o -> seg_intersection_t s o = None.
Proof.
  intros s o Hpar. change (dD s o == 0) in Hpar.
  rewrite seg_intersection_t_unfold.
  apply Qeq_bool_iff in Hpar. rewrite Hpar.
  destruct (peqb (l_to s) (l_to o) || peqb (l_from s) (l_from o)
            || peqb (l_from s) (l_to o) || peqb (l_to s) (l_from o)); reflexivity.
Qed.

Lemma inter_shared_endpoint_none : forall s o, shares_endpoint s o -> seg_intersection_t s o = None.
Proof.
  intros s o H. rewrite seg_intersection_t_unfold.
  apply shares_endpoint_b in H. rewrite H. reflexivity.
Qed.

Lemma shares_endpoint_sym s o : shares_endpoint s o -> shares_endpoint o s.
Proof.
  unfold shares_endpoint. intros [H|[H|[H|H]]]; apply peq_sym in H; tauto.
Qed.

Lemma dD_sym s o : dD o s == - dD s o.
Proof. coords s o. ring. Qed.

Lemma inter_sym : forall s o t u, seg_intersection_t s o = Some (t, u) ->
  exists t' u', seg_intersection_t o s = Some (u', t') /\ t' == t /\ u' == u.
Proof.
  intros s o t u H. apply inter_sound in H. destruct H as (Hm & Hpar & Hsh).
  destruct (inter_complete o s u t) as (u' & t' & Hr & Hu & Ht).
  - intro H. apply Hsh. apply shares_endpoint_sym. exact H.
  - intro H. apply Hpar. change (dD o s == 0) in H. change (dD s o == 0).
    rewrite dD_sym in H. lra.
  - destruct Hm as (T0 & T1 & U0 & U1 & Hm). unfold meet_at.
    repeat (split; [assumption|]). apply peq_sym. exact Hm.
  - exists t', u'. split; [exact Hr|]. split; assumption.
Qed.

(* ------------------------------------------------------------ segment / line *)
Definition lD (s : lineseg) (lv : qpt) : Q := cross (psub (l_to s) (l_from s)) lv.
Definition lN (s : lineseg) (lp lv : qpt) : Q := cross (psub lp (l_from s)) lv.

Lemma seg_line_intersection_t_unfold s lp lv :
  seg_line_intersection_t s lp lv =
  if Qeq_bool (lD s lv) 0 then None
  else if Qltb (lN s lp lv * qsignum (lD s lv)) 0
          || Qltb (Qabs (lD s lv)) (lN s lp lv * qsignum (lD s lv)) then None
  else Some (lN s lp lv * qsignum (lD s lv) / Qabs (lD s lv)).
Proof. reflexivity. Qed.

Lemma line_cross s lp lv t :
  cross (psub (l_sample s t) lp) lv == t * lD s lv - lN s lp lv.
Proof.
  destruct s as [[a1 a2] [b1 b2]]; destruct lp as [p1 p2]; destruct lv as [v1 v2].
  unfold lD, lN, l_sample, plerp, cross, psub, px, py; cbn [l_from l_to fst snd]. ring.
Qed.

Lemma seg_line_sound : forall s lp lv t, seg_line_intersection_t s lp lv = Some t ->
  0 <= t /\ t <= 1 /\ cross (psub (l_sample s t) lp) lv == 0.
Proof.
  intros s lp lv t. rewrite seg_line_intersection_t_unfold.
  destruct (Qeq_bool (lD s lv) 0) eqn:ED; [discriminate|].
  apply Qeq_bool_false in ED.
  destruct (Qltb (lN s lp lv * qsignum (lD s lv)) 0) eqn:E1; [discriminate|].
  destruct (Qltb (Qabs (lD s lv)) (lN s lp lv * qsignum (lD s lv))) eqn:E2; [discriminate|].
  cbn [orb]. intros H. injection H as <-.
  destruct (param_sound _ _ ED E1 E2) as (T0 & T1 & TD).
  split; [assumption|]. split; [assumption|].
  rewrite line_cross. rewrite TD. ring.
Qed.

Lemma seg_line_complete : forall s lp lv t,
  ~ cross (psub (l_to s) (l_from s)) lv == 0 ->
  0 <= t -> t <= 1 -> cross (psub (l_sample s t) lp) lv == 0 ->
  exists t', seg_line_intersection_t s lp lv = Some t' /\ t' == t.
Proof.
  intros s lp lv t HD T0 T1 Hc. change (~ lD s lv == 0) in HD.
  rewrite line_cross in Hc.
  assert (HT : t * lD s lv == lN s lp lv) by lra.
  destruct (param_complete _ _ _ HD HT T0 T1) as (E1 & E2 & Et).
  rewrite seg_line_intersection_t_unfold.
  apply Qeq_bool_false in HD. rewrite HD, E1, E2. cbn [orb].
  eexists; split; [reflexivity | assumption].
Qed.
