(* The decision functions translated from the Rust source on every run (Gen/Functions.v) ARE the definitions the
   hand-written models use: a change of one of these functions in the source changes the generated definition and
   breaks the corresponding lemma here. *)
From Coq Require Import QArith Lqa.
From LV Require Import Base.Prelude Model.Bezier Model.Winding Model.Monotone Gen.Constants Gen.Functions Checker.StrokeSpec.
Open Scope Q_scope.

(* fill.rs is_after  =  Model/Monotone.v is_after (used by the advanced monotone tessellator model) *)
Lemma src_is_after_is_model : forall a b, src_is_after a b = is_after a b.
Proof. reflexivity. Qed.

(* path/lib.rs FillRule::is_in  =  Model/Winding.v is_in (hit test, region comparator) *)
Lemma src_fill_rule_is_in_is_model : forall r w, src_fill_rule_is_in r w = is_in r w.
Proof. intros [] w; reflexivity. Qed.

Lemma Qltb_compat : forall a a' b b', a == a' -> b == b' -> Qltb a b = Qltb a' b'.
Proof.
  intros a a' b b' Ha Hb. unfold Qltb. f_equal.
  destruct (Qle_bool b a) eqn:E1, (Qle_bool b' a') eqn:E2; try reflexivity.
  - apply Qle_bool_iff in E1. rewrite Ha, Hb in E1. apply Qle_bool_iff in E1. congruence.
  - apply Qle_bool_iff in E2. rewrite <- Ha, <- Hb in E2. apply Qle_bool_iff in E2. congruence.
Qed.

(* stroke.rs miter_limit_is_exceeded  =  Checker/StrokeSpec.v miter_limit_is_exceeded *)
Lemma src_miter_limit_is_exceeded_is_model : forall n m,
  src_miter_limit_is_exceeded n m = miter_limit_is_exceeded n m.
Proof.
  intros n m. unfold src_miter_limit_is_exceeded, miter_limit_is_exceeded, sdot, miter_limit_factor.
  apply Qltb_compat; ring.
Qed.

Lemma Qltb_true a b : Qltb a b = true <-> a < b.
Proof.
  unfold Qltb. rewrite Bool.negb_true_iff. split.
  - intros H. apply Qnot_le_lt. intros L. apply Qle_bool_iff in L. congruence.
  - intros H. destruct (Qle_bool b a) eqn:E; [|reflexivity]. apply Qle_bool_iff in E. lra.
Qed.
Lemma Qltb_false a b : Qltb a b = false <-> b <= a.
Proof.
  unfold Qltb. rewrite Bool.negb_false_iff. apply Qle_bool_iff.
Qed.

(* fill.rs compare_positions and is_after tell the same story: Greater exactly when is_after, Equal exactly on equal
   coordinates, and Less exactly when the other point is after *)
Lemma src_compare_positions_gt : forall a b, src_compare_positions a b = Gt <-> src_is_after a b = true.
Proof.
  intros a b. unfold src_compare_positions, src_is_after.
  destruct (Qltb (py b) (py a)) eqn:E1; [cbn; tauto|].
  destruct (Qltb (py a) (py b)) eqn:E2.
  - cbn. apply Qltb_true in E2. apply Qltb_false in E1.
    destruct (Qeq_bool (py a) (py b)) eqn:E3; [apply Qeq_bool_iff in E3; lra|]. cbn. split; discriminate.
  - apply Qltb_false in E1, E2.
    assert (E3 : Qeq_bool (py a) (py b) = true) by (apply Qeq_bool_iff; lra). rewrite E3. cbn.
    destruct (Qltb (px b) (px a)) eqn:E4; [tauto|].
    destruct (Qltb (px a) (px b)); split; discriminate.
Qed.

Lemma src_compare_positions_eq : forall a b, src_compare_positions a b = Eq <-> px a == px b /\ py a == py b.
Proof.
  intros a b. unfold src_compare_positions.
  destruct (Qltb (py b) (py a)) eqn:E1.
  { apply Qltb_true in E1. split; [discriminate|]. intros [_ H]; lra. }
  destruct (Qltb (py a) (py b)) eqn:E2.
  { apply Qltb_true in E2. split; [discriminate|]. intros [_ H]; lra. }
  destruct (Qltb (px b) (px a)) eqn:E3.
  { apply Qltb_true in E3. split; [discriminate|]. intros [H _]; lra. }
  destruct (Qltb (px a) (px b)) eqn:E4.
  { apply Qltb_true in E4. split; [discriminate|]. intros [H _]; lra. }
  apply Qltb_false in E1, E2, E3, E4. split; [intros _; split; lra|reflexivity].
Qed.

Lemma src_compare_positions_lt : forall a b, src_compare_positions a b = Lt <-> src_is_after b a = true.
Proof.
  intros a b. unfold src_compare_positions, src_is_after.
  destruct (Qltb (py b) (py a)) eqn:E1.
  { apply Qltb_true in E1. split; [discriminate|].
    assert (Qltb (py a) (py b) = false) by (apply Qltb_false; lra). rewrite H.
    destruct (Qeq_bool (py b) (py a)) eqn:E; [apply Qeq_bool_iff in E; lra|]. cbn. discriminate. }
  destruct (Qltb (py a) (py b)) eqn:E2; [cbn; split; intros _; reflexivity|].
  apply Qltb_false in E1, E2.
  assert (E3 : Qeq_bool (py b) (py a) = true) by (apply Qeq_bool_iff; lra). rewrite E3. cbn.
  destruct (Qltb (px b) (px a)) eqn:E4.
  { apply Qltb_true in E4. assert (Qltb (px a) (px b) = false) by (apply Qltb_false; lra). rewrite H. split; discriminate. }
  destruct (Qltb (px a) (px b)); split; auto; discriminate.
Qed.

Lemma src_sweep_order_consistent : forall a b,
  (src_compare_positions a b = Gt <-> src_is_after a b = true) /\
  (src_compare_positions a b = Lt <-> src_is_after b a = true) /\
  (src_compare_positions a b = Eq <-> px a == px b /\ py a == py b).
Proof.
  intros a b. split; [exact (src_compare_positions_gt a b)|].
  split; [exact (src_compare_positions_lt a b)|exact (src_compare_positions_eq a b)].
Qed.
