(* C14 proofs: entry point.  Re-exports the lemmas used by Props/C14.v:
     iter_attr_spec iter_spec first_endpoint_spec concat_spec
     events_well_formed builder_ids          (C14_Iter)
     id_iter_resolves                         (C14_Ids)
     reversed_spec reversed_twice             (C14_Rev) *)
From LV Require Export Proofs.C14_Layout Proofs.C14_Iter Proofs.C14_Ids
  Proofs.C14_RevSpec Proofs.C14_Rev.
