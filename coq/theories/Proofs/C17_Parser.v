(* Proofs for C17: the path-syntax parser model (Model/Parser.v) is total, panic-free,
   protocol-safe, rejects data not starting with a move-to, and is independent of the attribute
   buffer left behind by a previous use. *)
From LV Require Import Base.Prelude Model.Parser.
Open Scope Z_scope.

Local Arguments Ok {A} _.
Local Arguments Err {A} _.
Local Arguments Good {F A} _.
Local Arguments Bad {F A} _ _.
Local Arguments Continue {F} _ _ _.
Local Arguments Break {F} _.
Local Arguments Fail {F} _ _.
Local Arguments mkP {F} _ _ _ _.
Local Arguments p_attr {F} _.
Local Arguments p_cur {F} _.
Local Arguments p_need_end {F} _.
Local Arguments p_out {F} _.
Local Arguments out {F} _ _.
Local Arguments set_cur {F} _ _.
Local Arguments set_attr {F} _ _.
Local Arguments set_need_end {F} _ _.
Local Arguments lift {F A} _ _.
Local Arguments ret {F A} _ _.
Local Arguments mkL {F} _ _ _ _ _ _.
Local Arguments l_first {F} _.
Local Arguments l_need_start {F} _.
Local Arguments l_pc {F} _.
Local Arguments l_pq {F} _.
Local Arguments l_implicit {F} _.
Local Arguments l_oracles {F} _.
Local Arguments mkAA {F} _ _.
Local Arguments aa_straight {F} _.
Local Arguments aa_quads {F} _.
Local Arguments pnested {F} _ _.
Local Arguments PBegin {F} _ _.
Local Arguments PLine {F} _ _.
Local Arguments PQuad {F} _ _ _.
Local Arguments PCubic {F} _ _ _ _.
Local Arguments PEnd {F} _.

(* ------------------------------------------------------------------ Source *)

(* characters still to be consumed, counting the current one *)
Definition remaining (s : source) : nat :=
  if sr_fin s then 0%nat else S (length (sr_rest s)).

Lemma advance_le s : (remaining (advance_one s) <= remaining s)%nat.
Proof.
  unfold advance_one, remaining. destruct s as [rest cur line col fin]; cbn.
  destruct fin; cbn; [lia|]. destruct rest as [|c r]; cbn; [lia|].
  destruct (c =? 10); cbn; lia.
Qed.

Lemma advance_lt s : sr_fin s = false -> (remaining (advance_one s) < remaining s)%nat.
Proof.
  unfold advance_one, remaining. destruct s as [rest cur line col fin]; cbn.
  intros ->. destruct rest as [|c r]; cbn; [lia|].
  destruct (c =? 10); cbn; lia.
Qed.

Lemma advance_fin s : sr_fin s = true -> advance_one s = s.
Proof. unfold advance_one. intros ->. reflexivity. Qed.

Lemma remaining_pos_fin s : (0 < remaining s)%nat -> sr_fin s = false.
Proof. unfold remaining. destruct (sr_fin s); [lia | reflexivity]. Qed.

Lemma fin_remaining s : sr_fin s = false -> (0 < remaining s)%nat.
Proof. unfold remaining. intros ->. lia. Qed.

Lemma skip_ws_go_le is_ws fuel : forall s, (remaining (skip_ws_go is_ws fuel s) <= remaining s)%nat.
Proof.
  induction fuel as [|f IH]; intros s; cbn [skip_ws_go]; [lia|].
  destruct (negb (sr_fin s) && (is_ws (sr_cur s) || (sr_cur s =? 44))); [|lia].
  specialize (IH (advance_one s)). pose proof (advance_le s). lia.
Qed.

Lemma skip_ws_le is_ws s : (remaining (skip_whitespace is_ws s) <= remaining s)%nat.
Proof. apply skip_ws_go_le. Qed.

(* invariant of the number scanner: nothing consumed yet => nothing buffered yet *)
Definition scanJ (R : nat) (p : source * list Z) : Prop :=
  (remaining (fst p) <= R)%nat /\ ((0 < R)%nat -> remaining (fst p) = R -> snd p = []).

Lemma scanJ_adv R s b b' : scanJ R (s, b) -> scanJ R (advance_one s, b').
Proof.
  unfold scanJ; cbn [fst snd]. intros [Hle _]. pose proof (advance_le s) as Ha. split; [lia|].
  intros HR Heq. exfalso.
  destruct (sr_fin s) eqn:Hf.
  - rewrite (advance_fin _ Hf) in Heq. unfold remaining in Heq. rewrite Hf in Heq. lia.
  - pose proof (advance_lt _ Hf). lia.
Qed.

Lemma scanJ_take is_num R fuel : forall s b, scanJ R (s, b) -> scanJ R (take_num_go is_num fuel s b).
Proof.
  induction fuel as [|f IH]; intros s b HJ; cbn [take_num_go]; [exact HJ|].
  destruct (is_num (sr_cur s)); [|exact HJ].
  apply IH. eapply scanJ_adv; exact HJ.
Qed.

Definition is_user_err (e : perr) : Prop :=
  match e with EPanic | EFuel => False | _ => True end.

Section Proofs.
Variable F : Type.
Variables (fzero fone : F) (fadd fsub fmul : F -> F -> F).
Variable parse_f32 : list Z -> option F.
Variables is_ws is_num : Z -> bool.
Variable n_attr : nat.
Variable stop_at : option Z.

Local Notation pnum := (parse_number F parse_f32 is_ws is_num).
Local Notation skipws := (skip_whitespace is_ws).
Local Notation pflag := (parse_flag is_ws).
Local Notation pattrs_go := (parse_attrs_go F parse_f32 is_ws is_num).
Local Notation pattrs := (parse_attributes F parse_f32 is_ws is_num n_attr).
Local Notation ppoint := (parse_point F fadd parse_f32 is_ws is_num).
Local Notation pendpoint := (parse_endpoint F fadd parse_f32 is_ws is_num n_attr).
Local Notation pstep := (parse_step F fone fadd fsub fmul parse_f32 is_ws is_num n_attr stop_at).
Local Notation ploop := (parse_loop F fone fadd fsub fmul parse_f32 is_ws is_num n_attr stop_at).
Local Notation prun := (parse F fzero fone fadd fsub fmul parse_f32 is_ws is_num n_attr stop_at).
Local Notation interp := (interp_go F fone fadd fsub fmul).

(* [adv s' s]: s' is no further from the end than s, and strictly closer when the empty text is
   not a number and s is not finished *)
Definition adv (s' s : source) : Prop :=
  (remaining s' <= remaining s)%nat /\
  (parse_f32 [] = None -> sr_fin s = false -> (remaining s' < remaining s)%nat).

Lemma adv_le s2 s1 s : adv s1 s -> (remaining s2 <= remaining s1)%nat -> adv s2 s.
Proof. unfold adv. intros [H1 H2] H. split; [lia|]. intros Hp Hf. specialize (H2 Hp Hf). lia. Qed.

Lemma adv_le_l s2 s1 s : (remaining s1 <= remaining s)%nat -> adv s2 s1 -> adv s2 s.
Proof.
  unfold adv. intros H [H1 H2]. split; [lia|]. intros Hp Hf.
  destruct (sr_fin s1) eqn:Hf1.
  - unfold remaining in *. rewrite Hf1 in *. rewrite Hf in *. lia.
  - specialize (H2 Hp eq_refl). lia.
Qed.

Lemma adv_weak s' s : adv s' s -> (remaining s' <= remaining s)%nat.
Proof. intros [H _]; exact H. Qed.

Lemma parse_number_spec s0 :
  match pnum s0 with
  | Ok (v, s') => adv s' s0
  | Err e => is_user_err e
  end.
Proof.
  unfold parse_number.
  pose proof (skip_ws_le is_ws s0) as Hsk.
  set (s1 := skipws s0) in *.
  set (R := remaining s1) in *.
  assert (H0 : scanJ R (s1, [])) by (unfold scanJ; cbn [fst snd]; split; [lia | reflexivity]).
  destruct (if sr_cur s1 =? 45 then _ else _) as [s2 b2] eqn:E1.
  assert (H1 : scanJ R (s2, b2)).
  { rewrite <- E1. destruct (sr_cur s1 =? 45); [eapply scanJ_adv; exact H0 | exact H0]. }
  clear E1 H0.
  destruct (take_num is_num s2 b2) as [s3 b3] eqn:E2.
  assert (H2 : scanJ R (s3, b3)) by (rewrite <- E2; apply scanJ_take; exact H1).
  clear E2 H1.
  destruct (if sr_cur s3 =? 46 then _ else _) as [s4 b4] eqn:E3.
  assert (H3 : scanJ R (s4, b4)).
  { rewrite <- E3. destruct (sr_cur s3 =? 46); [|exact H2].
    apply scanJ_take. eapply scanJ_adv; exact H2. }
  clear E3 H2.
  destruct (if (sr_cur s4 =? 101) || (sr_cur s4 =? 69) then _ else _) as [s5 b5] eqn:E4.
  assert (H4 : scanJ R (s5, b5)).
  { rewrite <- E4. destruct ((sr_cur s4 =? 101) || (sr_cur s4 =? 69)); [|exact H3].
    destruct (sr_cur (advance_one s4) =? 45); apply scanJ_take.
    - eapply (scanJ_adv _ _ []). eapply scanJ_adv. exact H3.
    - eapply scanJ_adv. exact H3. }
  clear E4 H3.
  destruct (parse_f32 b5) as [v|] eqn:Ep; [|exact I].
  destruct H4 as [Hle Hbuf]; cbn [fst snd] in *.
  split; [lia|]. intros Hnil Hfin.
  pose proof (fin_remaining _ Hfin) as Hpos.
  destruct (Nat.eq_dec R 0) as [HR0|HR0]; [lia|].
  destruct (Nat.eq_dec (remaining s5) R) as [Heq|Hne]; [|lia].
  assert (HR : (0 < R)%nat) by lia.
  rewrite (Hbuf HR Heq) in Ep. congruence.
Qed.

Lemma parse_flag_spec s0 :
  match pflag s0 with
  | Ok (b, s') => (remaining s' <= remaining s0)%nat
  | Err e => is_user_err e
  end.
Proof.
  unfold parse_flag. pose proof (skip_ws_le is_ws s0) as Hsk.
  pose proof (advance_le (skipws s0)) as Ha.
  destruct (sr_cur (skipws s0) =? 49); [lia|].
  destruct (sr_cur (skipws s0) =? 48); [lia|]. exact I.
Qed.

(* ------------------------------------------------------------- sub-parsers *)
Definition same_out (st st' : pstate F) : Prop :=
  p_out st' = p_out st /\ p_need_end st' = p_need_end st.

Lemma same_out_refl st : same_out st st.
Proof. split; reflexivity. Qed.

Lemma same_out_trans a b c : same_out a b -> same_out b c -> same_out a c.
Proof. unfold same_out. intros [H1 H2] [H3 H4]. split; congruence. Qed.

Lemma parse_attrs_go_spec n : forall st s,
  match pattrs_go n st s with
  | Good (st', s') => same_out st st' /\ length (p_attr st') = (length (p_attr st) + n)%nat
                      /\ (remaining s' <= remaining s)%nat
  | Bad e st' => same_out st st' /\ is_user_err e
  end.
Proof.
  induction n as [|k IH]; intros st s; cbn [parse_attrs_go].
  - split; [apply same_out_refl|]. split; lia.
  - pose proof (parse_number_spec s) as Hn.
    destruct (pnum s) as [[v s1]|e].
    + specialize (IH (set_attr st (p_attr st ++ [v])) s1).
      destruct (pattrs_go k _ s1) as [[st' s']|e st'].
      * destruct IH as (Hso & Hlen & Hle). split; [exact Hso|].
        cbn [set_attr p_attr] in Hlen. rewrite app_length in Hlen. cbn [length] in Hlen.
        apply adv_weak in Hn. split; lia.
      * exact IH.
    + split; [apply same_out_refl | exact Hn].
Qed.

Lemma parse_attributes_spec st s :
  match pattrs st s with
  | Good (st', s') => same_out st st' /\ length (p_attr st') = n_attr
                      /\ (remaining s' <= remaining s)%nat
  | Bad e st' => same_out st st' /\ is_user_err e
  end.
Proof.
  unfold parse_attributes. pose proof (parse_attrs_go_spec n_attr (set_attr st []) s) as H.
  destruct (pattrs_go n_attr _ s) as [[st' s']|e st']; exact H.
Qed.

Lemma parse_point_spec st rel s :
  match ppoint st rel s with
  | Good (p, s') => adv s' s
  | Bad e st' => st' = st /\ is_user_err e
  end.
Proof.
  unfold parse_point.
  pose proof (parse_number_spec s) as H1.
  destruct (pnum s) as [[x s1]|e]; cbn [lift obnd]; [|split; [reflexivity | exact H1]].
  pose proof (parse_number_spec s1) as H2.
  destruct (pnum s1) as [[y s2]|e]; cbn [lift obnd]; [|split; [reflexivity | exact H2]].
  apply adv_weak in H2.
  destruct rel; eapply adv_le; eauto.
Qed.

Lemma parse_endpoint_spec st rel s :
  match pendpoint st rel s with
  | Good (p, st', s') => adv s' s /\ same_out st st' /\ length (p_attr st') = n_attr
  | Bad e st' => same_out st st' /\ is_user_err e
  end.
Proof.
  unfold parse_endpoint.
  pose proof (parse_point_spec st rel s) as H1.
  destruct (ppoint st rel s) as [[p s1]|e st1]; cbn [obnd].
  - pose proof (parse_attributes_spec (set_cur st p) s1) as H2.
    destruct (pattrs (set_cur st p) s1) as [[st2 s2]|e st2]; cbn [obnd].
    + destruct H2 as (Hso & Hlen & Hle). split; [eapply adv_le; eauto|]. split; [exact Hso | exact Hlen].
    + exact H2.
  - destruct H1 as [-> He]. split; [apply same_out_refl | exact He].
Qed.

(* ------------------------------------------------------------- protocol invariant *)
Definition Inv1 (st : pstate F) : Prop :=
  forall rest, pnested false (p_out st ++ rest) = pnested (p_need_end st) rest.

Lemma Inv1_same_out st st' : same_out st st' -> Inv1 st -> Inv1 st'.
Proof. unfold Inv1, same_out. intros [-> ->] H. exact H. Qed.

Definition is_draw_call (c : pcall F) : bool :=
  match c with PLine _ _ | PQuad _ _ _ | PCubic _ _ _ _ => true | _ => false end.

Lemma Inv1_out_draw st c :
  Inv1 st -> p_need_end st = true -> is_draw_call c = true -> Inv1 (out st c).
Proof.
  unfold Inv1. intros H Hne Hc rest. cbn [out p_out p_need_end].
  rewrite <- app_assoc. rewrite H, Hne. cbn [app].
  destruct c; try discriminate; reflexivity.
Qed.

(* ------------------------------------------------------------- no index out of range *)
Lemma interp_go_ok t prev cur : forall n i acc,
  (i + n <= length prev)%nat -> (i + n <= length cur)%nat -> (i + n <= length acc)%nat ->
  exists acc', interp i n prev cur acc t = Some acc' /\ length acc' = length acc.
Proof.
  induction n as [|k IH]; intros i acc Hp Hc Ha; cbn [interp_go].
  - eexists; split; reflexivity.
  - destruct (nth_error prev i) as [p|] eqn:E1; [|apply nth_error_None in E1; lia].
    destruct (nth_error cur i) as [c|] eqn:E2; [|apply nth_error_None in E2; lia].
    destruct (nth_error acc i) as [a|] eqn:E3; [|apply nth_error_None in E3; lia].
    match goal with |- context [interp (S i) k prev cur ?a t] => set (acc1 := a) end.
    assert (Hl : length acc1 = length acc).
    { unfold acc1. rewrite !app_length, firstn_length, skipn_length. cbn [length]. lia. }
    destruct (IH (S i) acc1) as (acc' & He & Hl'); try lia.
    exists acc'. split; [exact He | lia].
Qed.

Definition arc_go (prev : list F) :=
  fix go (qs : list (fpt F * fpt F * F)) (itp : list F) (st : pstate F) : option (pstate F) :=
    match qs with
    | [] => Some st
    | (c, p, t) :: r =>
        match interp 0 n_attr prev (p_attr st) itp t with
        | Some itp' => go r itp' (out st (PQuad c p itp'))
        | None => None
        end
    end.

Lemma arc_go_ok prev : length prev = n_attr -> forall qs itp st,
  length (p_attr st) = n_attr -> length itp = n_attr -> p_need_end st = true -> Inv1 st ->
  exists st', arc_go prev qs itp st = Some st' /\ p_attr st' = p_attr st
              /\ p_need_end st' = true /\ Inv1 st'.
Proof.
  intros Hprev. induction qs as [|[[c p] t] r IH]; intros itp st Hattr Hitp Hne Hinv; cbn [arc_go].
  - exists st. repeat split; auto.
  - destruct (interp_go_ok t prev (p_attr st) n_attr 0%nat itp) as (itp' & He & Hl); try lia.
    rewrite He.
    destruct (IH itp' (out st (PQuad c p itp'))) as (st' & H1 & H2 & H3 & H4); auto; try lia.
    { apply Inv1_out_draw; auto. }
    exists st'. repeat split; auto.
Qed.

(* ------------------------------------------------------------- one loop iteration *)
Definition imp_of (cmd : Z) : Z :=
  if cmd =? 109 then 108 else if cmd =? 77 then 76
  else if cmd =? 122 then 109 else if cmd =? 90 then 77 else cmd.

Lemma imp_not_z cmd : (to_lower (imp_of cmd) =? 122) = false.
Proof.
  unfold imp_of.
  destruct (Z.eqb_spec cmd 109); [reflexivity|].
  destruct (Z.eqb_spec cmd 77); [reflexivity|].
  destruct (Z.eqb_spec cmd 122); [reflexivity|].
  destruct (Z.eqb_spec cmd 90); [reflexivity|].
  unfold to_lower. apply Z.eqb_neq.
  destruct (Z.leb_spec 65 cmd); destruct (Z.leb_spec cmd 90); cbn [andb]; lia.
Qed.

Definition step_post (cmd : Z) (s1 : source) (r : step_res F) : Prop :=
  match r with
  | Continue st' l' s' =>
      Inv1 st' /\ p_need_end st' = negb (l_need_start l')
      /\ (l_need_start l' = false -> length (p_attr st') = n_attr)
      /\ (to_lower (l_implicit l') =? 122) = false
      /\ (remaining s' <= remaining s1)%nat
      /\ (parse_f32 [] = None -> (to_lower cmd =? 122) = false -> sr_fin s1 = false ->
          (remaining s' < remaining s1)%nat)
  | Break st' => Inv1 st'
  | Fail e st' => Inv1 st' /\ is_user_err e
  end.

Lemma continue_post cmd s1 st2 f ns pc pq o s2 :
  Inv1 st2 -> p_need_end st2 = negb ns -> (ns = false -> length (p_attr st2) = n_attr) ->
  adv s2 s1 ->
  step_post cmd s1 (Continue st2 (mkL f ns pc pq (imp_of cmd) o) (skipws s2)).
Proof.
  intros H1 H2 H3 [H4 H5]. cbn [step_post l_need_start l_implicit].
  pose proof (skip_ws_le is_ws s2).
  repeat split; auto using imp_not_z; try lia.
  intros Hp _ Hf. specialize (H5 Hp Hf). lia.
Qed.

Lemma continue_post_z cmd s1 st2 f ns pc pq o :
  (to_lower cmd =? 122) = true ->
  Inv1 st2 -> p_need_end st2 = negb ns -> (ns = false -> length (p_attr st2) = n_attr) ->
  step_post cmd s1 (Continue st2 (mkL f ns pc pq (imp_of cmd) o) (skipws s1)).
Proof.
  intros Hz H1 H2 H3. cbn [step_post l_need_start l_implicit].
  pose proof (skip_ws_le is_ws s1).
  repeat split; auto using imp_not_z; try lia.
Qed.


Lemma Inv1_begin st p a :
  Inv1 st -> p_need_end st = false -> Inv1 (set_need_end (out st (PBegin p a)) true).
Proof.
  unfold Inv1. intros H Hne rest. cbn [set_need_end out p_out p_need_end].
  rewrite <- app_assoc, H, Hne. reflexivity.
Qed.

Lemma Inv1_end st b :
  Inv1 st -> p_need_end st = true -> Inv1 (set_need_end (out st (PEnd b)) false).
Proof.
  unfold Inv1. intros H Hne rest. cbn [set_need_end out p_out p_need_end].
  rewrite <- app_assoc, H, Hne. reflexivity.
Qed.

Lemma Inv1_end_cur st b p :
  Inv1 st -> p_need_end st = true -> Inv1 (set_need_end (set_cur (out st (PEnd b)) p) false).
Proof.
  unfold Inv1. intros H Hne rest. cbn [set_need_end set_cur out p_out p_need_end].
  rewrite <- app_assoc, H, Hne. reflexivity.
Qed.

Ltac solve_adv :=
  first [ eassumption
        | eapply adv_le; [ | first [eassumption | apply adv_weak; eassumption] ]; solve_adv ].

Ltac fail_bad H :=
  split; [ first [ eapply Inv1_same_out; [apply H | eassumption]
                 | (destruct H as [-> _]; assumption) ]
         | apply H ].

Ltac step_ep :=
  lazymatch goal with
  | |- step_post _ _ (ret (pendpoint ?st0 ?rel ?s0) _) =>
      let H := fresh "Hep" in
      pose proof (parse_endpoint_spec st0 rel s0) as H;
      let to := fresh "to" in let st2 := fresh "st" in let s2 := fresh "s" in let e := fresh "e" in
      destruct (pendpoint st0 rel s0) as [[[to st2] s2]|e st2]; cbn [ret];
      [ destruct H as (? & ? & ?) | fail_bad H ]
  end.

Ltac step_pt :=
  lazymatch goal with
  | |- step_post _ _ (ret (ppoint ?st0 ?rel ?s0) _) =>
      let H := fresh "Hpt" in
      pose proof (parse_point_spec st0 rel s0) as H;
      let p := fresh "p" in let st2 := fresh "st" in let s2 := fresh "s" in let e := fresh "e" in
      destruct (ppoint st0 rel s0) as [[p s2]|e st2]; cbn [ret];
      [ | fail_bad H ]
  end.

Ltac step_num :=
  lazymatch goal with
  | |- step_post _ _ (ret (lift ?st0 (pnum ?s0)) _) =>
      let H := fresh "Hnum" in
      pose proof (parse_number_spec s0) as H;
      let v := fresh "v" in let s2 := fresh "s" in let e := fresh "e" in
      destruct (pnum s0) as [[v s2]|e]; cbn [ret lift];
      [ | split; [assumption | exact H] ]
  end.

Ltac step_flag :=
  lazymatch goal with
  | |- step_post _ _ (ret (lift ?st0 (pflag ?s0)) _) =>
      let H := fresh "Hflag" in
      pose proof (parse_flag_spec s0) as H;
      let v := fresh "b" in let s2 := fresh "s" in let e := fresh "e" in
      destruct (pflag s0) as [[v s2]|e]; cbn [ret lift];
      [ | split; [assumption | exact H] ]
  end.

Ltac step_attrs :=
  lazymatch goal with
  | |- step_post _ _ (ret (pattrs ?st0 ?s0) _) =>
      let H := fresh "Hat" in
      pose proof (parse_attributes_spec st0 s0) as H;
      let st2 := fresh "st" in let s2 := fresh "s" in let e := fresh "e" in
      destruct (pattrs st0 s0) as [[st2 s2]|e st2]; cbn [ret];
      [ destruct H as (? & ? & ?) | fail_bad H ]
  end.

Ltac fin_pre :=
  try lazymatch goal with
  | |- step_post _ _ (let '(_, _) := ?X in _) =>
      let pc := fresh "pc" in let pq := fresh "pq" in destruct X as [pc pq]
  end;
  cbn [l_first l_need_start l_pc l_pq l_oracles l_implicit].

Ltac fin_tac := fin_pre; apply continue_post.


Ltac unpack_so :=
  repeat match goal with H : same_out _ _ |- _ => destruct H as [? ?] end;
  cbn [set_cur set_attr set_need_end out p_out p_need_end p_attr p_cur] in *.

Ltac side st :=
  unpack_so;
  lazymatch goal with
  | |- Inv1 (out ?x ?c) =>
      apply Inv1_out_draw;
      [ apply (Inv1_same_out st); [split; cbn [set_cur p_out p_need_end]; congruence | assumption]
      | cbn [set_cur p_out p_need_end]; congruence | reflexivity ]
  | |- p_need_end _ = _ => cbn [negb]; congruence
  | |- _ -> length _ = _ => intros _; congruence
  | |- adv _ _ => solve_adv
  end.

Ltac fin_draw st := fin_tac; side st.

Lemma parse_step_spec st l s :
  Inv1 st -> p_need_end st = negb (l_need_start l) ->
  (l_need_start l = false -> length (p_attr st) = n_attr) ->
  (to_lower (l_implicit l) =? 122) = false -> sr_fin s = false ->
  match pstep st l s with
  | Continue st' l' s' =>
      Inv1 st' /\ p_need_end st' = negb (l_need_start l')
      /\ (l_need_start l' = false -> length (p_attr st') = n_attr)
      /\ (to_lower (l_implicit l') =? 122) = false
      /\ (remaining s' <= remaining s)%nat
      /\ (parse_f32 [] = None -> (remaining s' < remaining s)%nat)
  | Break st' => Inv1 st'
  | Fail e st' => Inv1 st' /\ is_user_err e
  end.
Proof.
  intros Hinv Hne Hlen Himp Hfin. unfold parse_step.
  destruct (match stop_at with Some c => c =? sr_cur s | None => false end); [exact Hinv|].
  destruct (if is_alpha (sr_cur s) then _ else _) as [cmd s1] eqn:Hp.
  match goal with |- match ?B with _ => _ end => assert (Hpost : step_post cmd s1 B) end.
  { cbv zeta. set (lc := to_lower cmd). set (rel := is_lower cmd).
    destruct (l_need_start l) eqn:Hns; cbn [andb negb] in *.
    - (* no sub-path open: only m/M is accepted *)
      destruct (lc =? 108) eqn:E108; cbn [orb]; [split; [exact Hinv | exact I]|].
      destruct (lc =? 104) eqn:E104; cbn [orb]; [split; [exact Hinv | exact I]|].
      destruct (lc =? 118) eqn:E118; cbn [orb]; [split; [exact Hinv | exact I]|].
      destruct (lc =? 113) eqn:E113; cbn [orb]; [split; [exact Hinv | exact I]|].
      destruct (lc =? 116) eqn:E116; cbn [orb]; [split; [exact Hinv | exact I]|].
      destruct (lc =? 99) eqn:E99; cbn [orb]; [split; [exact Hinv | exact I]|].
      destruct (lc =? 115) eqn:E115; cbn [orb]; [split; [exact Hinv | exact I]|].
      destruct (lc =? 97) eqn:E97; cbn [orb]; [split; [exact Hinv | exact I]|].
      destruct (lc =? 122) eqn:E122; cbn [orb]; [split; [exact Hinv | exact I]|].
      destruct (lc =? 109) eqn:E109; [|split; [exact Hinv | exact I]].
      rewrite Hne. step_ep. fin_tac.
      + apply Inv1_begin; [eapply Inv1_same_out; eassumption | destruct H0; congruence].
      + reflexivity.
      + intros _. assumption.
      + solve_adv.
    - (* a sub-path is open *)
      assert (Hlen' : length (p_attr st) = n_attr) by (apply Hlen; reflexivity). clear Hlen.
      destruct (lc =? 108) eqn:E108.
      { step_ep. fin_draw st. }
      destruct (lc =? 104) eqn:E104.
      { step_num. step_attrs. fin_draw st. }
      destruct (lc =? 118) eqn:E118.
      { step_num. step_attrs. fin_draw st. }
      destruct (lc =? 113) eqn:E113.
      { step_pt. step_ep. fin_draw st. }
      destruct (lc =? 116) eqn:E116.
      { step_ep. fin_draw st. }
      destruct (lc =? 99) eqn:E99.
      { step_pt. step_pt. step_ep. fin_draw st. }
      destruct (lc =? 115) eqn:E115.
      { step_pt. step_ep. fin_draw st. }
      destruct (lc =? 97) eqn:E97.
      { step_num. step_num. step_num. step_flag. step_flag. step_ep.
        lazymatch goal with
        | |- step_post _ _ (let '(_, _) := ?X in _) => destruct X as [ans orest]
        end.
        destruct (aa_straight ans).
        - fin_draw st.
        - unpack_so.
          assert (Ha0 : length (p_attr st0) = n_attr) by congruence.
          assert (Hn0 : p_need_end st0 = true) by congruence.
          assert (Hi0 : Inv1 st0) by (apply (Inv1_same_out st); [split; congruence | assumption]).
          destruct (arc_go_ok (p_attr st) Hlen' (aa_quads ans) (p_attr st) st0 Ha0 Hlen' Hn0 Hi0)
            as (st' & Hgo & Hattr & Hne' & Hinv').
          unfold arc_go in Hgo. rewrite Hgo.
          fin_tac; [assumption | cbn [negb]; congruence | intros _; congruence | solve_adv]. }
      destruct (lc =? 109) eqn:E109.
      { rewrite Hne. cbv iota.
        assert (Hinv0 : Inv1 (set_need_end (out st (PEnd false)) false))
          by (apply Inv1_end; assumption).
        step_ep. fin_tac.
        - unpack_so. apply Inv1_begin; [|congruence].
          apply (Inv1_same_out (set_need_end (out st (PEnd false)) false)); [split; assumption|].
          assumption.
        - reflexivity.
        - intros _. assumption.
        - solve_adv. }
      destruct (lc =? 122) eqn:E122; [|split; [exact Hinv | exact I]].
      fin_pre. apply continue_post_z;
        [exact E122 | apply Inv1_end_cur; assumption | reflexivity | discriminate]. }
  revert Hpost.
  match goal with |- step_post _ _ ?B -> _ => generalize B end.
  intros r Hr. destruct r as [st' l' s'|st'|e st']; cbn [step_post] in Hr; [|exact Hr|exact Hr].
  destruct Hr as (H1 & H2 & H3 & H4 & H5 & H6).
  repeat (split; [assumption|]).
  destruct (is_alpha (sr_cur s)); inversion Hp; subst cmd s1; clear Hp.
  - pose proof (advance_lt _ Hfin). split; [lia|]. intros _. lia.
  - split; [lia|]. intros Hnil. apply H6; assumption.
Qed.

(* ------------------------------------------------------------- the loop *)
Lemma parse_loop_spec : forall fuel st l s,
  Inv1 st -> p_need_end st = negb (l_need_start l) ->
  (l_need_start l = false -> length (p_attr st) = n_attr) ->
  (to_lower (l_implicit l) =? 122) = false ->
  Inv1 (fst (ploop fuel st l s)) /\ snd (ploop fuel st l s) <> Some EPanic
  /\ (parse_f32 [] = None -> (remaining s < fuel)%nat -> snd (ploop fuel st l s) <> Some EFuel).
Proof.
  induction fuel as [|f IH]; intros st l s Hinv Hne Hlen Himp; cbn [parse_loop].
  - cbn [fst snd]. split; [assumption|]. split; [discriminate|]. intros _ H; lia.
  - destruct (sr_fin s) eqn:Hfin.
    + cbn [fst snd]. repeat split; auto; discriminate.
    + pose proof (parse_step_spec st l s Hinv Hne Hlen Himp Hfin) as Hs.
      destruct (pstep st l s) as [st' l' s'|st'|e st'].
      * destruct Hs as (H1 & H2 & H3 & H4 & H5 & H6).
        destruct (IH st' l' s' H1 H2 H3 H4) as (I1 & I2 & I3).
        repeat split; auto. intros Hnil Hf. apply I3; auto. specialize (H6 Hnil). lia.
      * cbn [fst snd]. repeat split; auto; discriminate.
      * cbn [fst snd]. destruct Hs as [Hs1 Hs2].
        split; [exact Hs1|]. split; [intros Heq; inversion Heq; subst; exact Hs2|].
        intros _ _ Heq; inversion Heq; subst; exact Hs2.
Qed.

Lemma remaining_source_new text : (remaining (source_new text) <= length text)%nat.
Proof.
  unfold remaining, source_new. destruct text as [|c r]; cbn; [lia|].
  destruct (c =? 10); cbn; lia.
Qed.

Lemma parse_run_spec attr0 oracles text :
  pnested false (fst (prun attr0 oracles text)) = true
  /\ snd (prun attr0 oracles text) <> Some EPanic
  /\ (parse_f32 [] = None -> snd (prun attr0 oracles text) <> Some EFuel).
Proof.
  unfold parse.
  match goal with |- context [ploop ?f ?st ?l ?s] =>
    pose proof (parse_loop_spec f st l s) as H;
    destruct (ploop f st l s) as [st' e] end.
  cbn [fst snd] in *.
  destruct H as (H1 & H2 & H3).
  { intros rest. reflexivity. }
  { reflexivity. }
  { discriminate. }
  { reflexivity. }
  split; [|split; [exact H2|]].
  - destruct (p_need_end st') eqn:E.
    + rewrite (H1 [PEnd false]), E. reflexivity.
    + specialize (H1 []). rewrite app_nil_r in H1. rewrite H1, E. reflexivity.
  - intros Hnil. apply H3; [exact Hnil|].
    pose proof (skip_ws_le is_ws (source_new text)). pose proof (remaining_source_new text). lia.
Qed.

Theorem parse_protocol : forall attr0 oracles text,
  pnested false (fst (prun attr0 oracles text)) = true.
Proof. intros. apply parse_run_spec. Qed.

Theorem parse_no_panic : forall attr0 oracles text,
  snd (prun attr0 oracles text) <> Some EPanic.
Proof. intros. apply parse_run_spec. Qed.

(* [parse_total] as stated in Props/C17.v is false when [parse_f32 [] = Some _] (see the
   counterexample at the end of this file); with the hypothesis it holds *)
Theorem parse_total_partial : parse_f32 [] = None -> forall attr0 oracles text,
  snd (prun attr0 oracles text) <> Some EFuel /\ snd (prun attr0 oracles text) <> Some EPanic.
Proof.
  intros Hnil attr0 oracles text.
  destruct (parse_run_spec attr0 oracles text) as (_ & H2 & H3). split; auto.
Qed.

(* ------------------------------------------------------------- must start with a move-to *)
Definition drawing_letter (c : Z) : bool :=
  let lc := to_lower c in
  is_alpha c && ((lc =? 108) || (lc =? 104) || (lc =? 118) || (lc =? 113) || (lc =? 116)
                 || (lc =? 99) || (lc =? 115) || (lc =? 97) || (lc =? 122)).

Lemma parse_step_first st l s :
  l_need_start l = true -> drawing_letter (sr_cur s) = true -> stop_at <> Some (sr_cur s) ->
  pstep st l s = Fail (EMissingMoveTo (sr_cur s) (sr_line s) (sr_col s)) st.
Proof.
  intros Hns Hd Hstop. unfold parse_step.
  assert (Hs : match stop_at with Some c => c =? sr_cur s | None => false end = false).
  { destruct stop_at as [c|]; [|reflexivity]. apply Z.eqb_neq. intros ->. apply Hstop. reflexivity. }
  rewrite Hs. unfold drawing_letter in Hd. cbv zeta in Hd. apply andb_true_iff in Hd.
  destruct Hd as [Ha Hd]. rewrite Ha. cbv zeta. rewrite Hns, Hd. reflexivity.
Qed.

Theorem must_start_with_moveto : forall attr0 oracles text,
  let s := skipws (source_new text) in
  sr_fin s = false -> drawing_letter (sr_cur s) = true -> stop_at <> Some (sr_cur s) ->
  prun attr0 oracles text = ([], Some (EMissingMoveTo (sr_cur s) (sr_line s) (sr_col s))).
Proof.
  intros attr0 oracles text s Hfin Hd Hstop. unfold parse. fold s.
  cbn [parse_loop]. rewrite Hfin.
  rewrite parse_step_first; [reflexivity | reflexivity | exact Hd | exact Hstop].
Qed.

(* ------------------------------------------------------------- buffer independence *)
Definition eqx (st st' : pstate F) : Prop :=
  p_cur st = p_cur st' /\ p_need_end st = p_need_end st' /\ p_out st = p_out st'.

Lemma eqx_refl st : eqx st st.
Proof. repeat split. Qed.

Lemma eqx_eq st st' : eqx st st' -> p_attr st = p_attr st' -> st = st'.
Proof.
  destruct st, st'; unfold eqx; cbn. intros (-> & -> & ->) ->. reflexivity.
Qed.

Definition orel {A} (r r' : outcome F A) : Prop :=
  match r, r' with
  | Good a, Good a' => a = a'
  | Bad e st, Bad e' st' => e = e' /\ eqx st st'
  | _, _ => False
  end.

Lemma parse_attributes_eqx st st' s : eqx st st' -> pattrs st s = pattrs st' s.
Proof.
  intros H. unfold parse_attributes. f_equal. apply eqx_eq; [|reflexivity].
  destruct H as (H1 & H2 & H3). repeat split; cbn; assumption.
Qed.

Lemma parse_point_rel st st' rel s : eqx st st' -> orel (ppoint st rel s) (ppoint st' rel s).
Proof.
  intros H. unfold parse_point.
  destruct (pnum s) as [[x s1]|e]; cbn [lift obnd orel]; [|split; [reflexivity | exact H]].
  destruct (pnum s1) as [[y s2]|e]; cbn [lift obnd orel]; [|split; [reflexivity | exact H]].
  destruct H as (-> & _ & _). destruct rel; reflexivity.
Qed.

Lemma parse_endpoint_rel st st' rel s :
  eqx st st' -> orel (pendpoint st rel s) (pendpoint st' rel s).
Proof.
  intros H. unfold parse_endpoint.
  pose proof (parse_point_rel st st' rel s H) as Hp.
  destruct (ppoint st rel s) as [[p s1]|e st1], (ppoint st' rel s) as [[p' s1']|e' st1'];
    cbn [orel obnd] in *; try contradiction; [|exact Hp].
  inversion Hp; subst p' s1'; clear Hp.
  rewrite (parse_attributes_eqx (set_cur st p) (set_cur st' p) s1).
  2:{ destruct H as (H1 & H2 & H3). repeat split; cbn; assumption. }
  destruct (pattrs (set_cur st' p) s1) as [[st2 s2]|e st2]; cbn [orel obnd].
  - reflexivity.
  - split; [reflexivity | apply eqx_refl].
Qed.

Definition step_rel (r r' : step_res F) : Prop :=
  match r, r' with
  | Continue st l s, Continue st' l' s' =>
      eqx st st' /\ l = l' /\ s = s' /\ (l_need_start l = false -> st = st')
  | Break st, Break st' => eqx st st'
  | Fail e st, Fail e' st' => e = e' /\ eqx st st'
  | _, _ => False
  end.

Lemma step_rel_refl r : step_rel r r.
Proof. destruct r; cbn; repeat split; auto using eqx_refl. Qed.

Lemma parse_step_rel st st' l s :
  eqx st st' -> (l_need_start l = false -> st = st') ->
  step_rel (pstep st l s) (pstep st' l s).
Proof.
  intros Hx Hattr.
  destruct (l_need_start l) eqn:Hns; [|rewrite (Hattr eq_refl); apply step_rel_refl].
  clear Hattr. unfold parse_step.
  destruct (match stop_at with Some c => c =? sr_cur s | None => false end); [exact Hx|].
  destruct (if is_alpha (sr_cur s) then _ else _) as [cmd s1].
  cbv zeta. rewrite Hns. cbn [andb]. set (lc := to_lower cmd).
  destruct (lc =? 108) eqn:E108; cbn [orb]; [split; [reflexivity | exact Hx]|].
  destruct (lc =? 104) eqn:E104; cbn [orb]; [split; [reflexivity | exact Hx]|].
  destruct (lc =? 118) eqn:E118; cbn [orb]; [split; [reflexivity | exact Hx]|].
  destruct (lc =? 113) eqn:E113; cbn [orb]; [split; [reflexivity | exact Hx]|].
  destruct (lc =? 116) eqn:E116; cbn [orb]; [split; [reflexivity | exact Hx]|].
  destruct (lc =? 99) eqn:E99; cbn [orb]; [split; [reflexivity | exact Hx]|].
  destruct (lc =? 115) eqn:E115; cbn [orb]; [split; [reflexivity | exact Hx]|].
  destruct (lc =? 97) eqn:E97; cbn [orb]; [split; [reflexivity | exact Hx]|].
  destruct (lc =? 122) eqn:E122; cbn [orb]; [split; [reflexivity | exact Hx]|].
  destruct (lc =? 109) eqn:E109; [|split; [reflexivity | exact Hx]].
  match goal with
  | |- step_rel (ret (pendpoint ?a ?rel ?s0) ?k) (ret (pendpoint ?b _ _) _) =>
      assert (Hab : eqx a b);
      [ | pose proof (parse_endpoint_rel a b rel s0 Hab) as Hr;
          destruct (pendpoint a rel s0) as [[[to st2] s2]|e st2],
                   (pendpoint b rel s0) as [[[to' st2'] s2']|e' st2'];
          cbn [orel ret] in *; try contradiction ]
  end.
  - destruct Hx as (H1 & H2 & H3). rewrite H2. destruct (p_need_end st') eqn:E;
      repeat split; cbn; congruence.
  - inversion Hr; subst. apply step_rel_refl.
  - exact Hr.
Qed.

Lemma parse_loop_rel : forall fuel st st' l s,
  eqx st st' -> (l_need_start l = false -> st = st') ->
  eqx (fst (ploop fuel st l s)) (fst (ploop fuel st' l s))
  /\ snd (ploop fuel st l s) = snd (ploop fuel st' l s).
Proof.
  induction fuel as [|f IH]; intros st st' l s Hx Hattr; cbn [parse_loop].
  - split; [exact Hx | reflexivity].
  - destruct (sr_fin s); [split; [exact Hx | reflexivity]|].
    pose proof (parse_step_rel st st' l s Hx Hattr) as Hr.
    destruct (pstep st l s) as [a la sa|a|e a], (pstep st' l s) as [b lb sb|b|e' b];
      cbn [step_rel] in Hr; try contradiction.
    + destruct Hr as (H1 & <- & <- & H4). apply IH; assumption.
    + split; [exact Hr | reflexivity].
    + destruct Hr as [<- Hr]. split; [exact Hr | reflexivity].
Qed.

Theorem buffer_independent : forall attr0 attr0' oracles text,
  prun attr0 oracles text = prun attr0' oracles text.
Proof.
  intros attr0 attr0' oracles text. unfold parse.
  match goal with |- context [ploop ?f (mkP attr0 ?c ?b ?o) ?l ?s] =>
    pose proof (parse_loop_rel f (mkP attr0 c b o) (mkP attr0' c b o) l s) as H;
    destruct (ploop f (mkP attr0 c b o) l s) as [st1 e1],
             (ploop f (mkP attr0' c b o) l s) as [st2 e2] end.
  cbn [fst snd] in H. destruct H as [(H1 & H2 & H3) ->].
  { repeat split. }
  { cbn. discriminate. }
  rewrite H2, H3. reflexivity.
Qed.

End Proofs.

(* ------------------------------------------------------------- Source positions *)
Lemma iter_succ_r {A} (f : A -> A) n : forall x, Nat.iter (S n) f x = Nat.iter n f (f x).
Proof.
  induction n as [|n IH]; intros x; [reflexivity|].
  change (f (Nat.iter (S n) f x) = f (Nat.iter n f (f x))). rewrite IH. reflexivity.
Qed.

Lemma advance_cons c r cur line col :
  advance_one (mkSrc (c :: r) cur line col false)
  = if c =? 10 then mkSrc r 10 (line + 1) (-1) false else mkSrc r c line (col + 1) false.
Proof. reflexivity. Qed.

Lemma source_position_gen : forall k rest cur line col L C,
  (k < S (length rest))%nat ->
  (line, col) = (if cur =? 10 then (L + 1, -1) else (L, C)) ->
  let s := Nat.iter k advance_one (mkSrc rest cur line col false) in
  sr_fin s = false /\ sr_cur s = nth k (cur :: rest) 0
  /\ (sr_line s, sr_col s) = pos_of_go (cur :: rest) k L C.
Proof.
  induction k as [|k IH]; intros rest cur line col L C Hk Hpos.
  - cbn. repeat split; auto.
  - destruct rest as [|c r]; [cbn in Hk; lia|].
    cbv zeta. rewrite iter_succ_r, advance_cons.
    change (nth (S k) (cur :: c :: r) 0) with (nth k (c :: r) 0).
    change (pos_of_go (cur :: c :: r) (S k) L C)
      with (if cur =? 10 then pos_of_go (c :: r) k (L + 1) 0 else pos_of_go (c :: r) k L (C + 1)).
    cbn [length] in Hk.
    destruct (c =? 10) eqn:Ec.
    + apply Z.eqb_eq in Ec. subst c.
      destruct (cur =? 10); inversion Hpos; subst line col.
      * apply (IH r 10 _ _ (L + 1) 0); [lia | reflexivity].
      * apply (IH r 10 _ _ L (C + 1)); [lia | reflexivity].
    + destruct (cur =? 10); inversion Hpos; subst line col.
      * apply (IH r c _ _ (L + 1) 0); [lia | rewrite Ec; reflexivity].
      * apply (IH r c _ _ L (C + 1)); [lia | rewrite Ec; reflexivity].
Qed.

Theorem source_position : forall text k, (k < length text)%nat ->
  let s := Nat.iter k advance_one (source_new text) in
  sr_fin s = false /\ sr_cur s = nth k text 0 /\ (sr_line s, sr_col s) = pos_of text k.
Proof.
  intros text k Hk. destruct text as [|c r]; [cbn in Hk; lia|].
  unfold source_new, pos_of. cbn [length] in Hk.
  destruct (c =? 10) eqn:Ec.
  - apply source_position_gen; [lia | rewrite Ec; reflexivity].
  - apply source_position_gen; [lia | rewrite Ec; reflexivity].
Qed.

(* ------------------------------------------------------------- counterexample to parse_total
   when the empty text converts to a number: "M!" makes the implicit L command succeed without
   consuming anything, so the loop never terminates (the model runs out of fuel) *)
Example parse_total_counterexample :
  snd (parse Z 0 1 Z.add Z.sub Z.mul (fun _ => Some 0)
             (fun c => c =? 32) (fun c => (48 <=? c) && (c <=? 57)) 0 None [] [] [77; 33])
  = Some EFuel.
Proof. vm_compute. reflexivity. Qed.
