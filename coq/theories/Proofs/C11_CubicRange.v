(* C11, cubic part: the exact bounding range contains the curve.
   No analysis is available over Q: monotonicity on an interval comes from Simpson's rule
   (exact for cubics) and the sign of the derivative from its explicit factorisation. *)
From Coq Require Import QArith Qminmax Lqa Lia.
From LV Require Import Base.Prelude Model.Bezier Proofs.C11_Quad Proofs.C11_Cubic.
Open Scope Q_scope.

Definition signconst (F : Q -> Q) (s u : Q) : Prop :=
  (forall x, s <= x -> x <= u -> 0 <= F x) \/ (forall x, s <= x -> x <= u -> F x <= 0).

Lemma signconst_ext F G s u : (forall x, F x == G x) -> signconst G s u -> signconst F s u.
Proof.
  intros E [H|H]; [left|right]; intros x A B; rewrite E; auto.
Qed.

Lemma signconst_scale c G s u : signconst G s u -> signconst (fun x => c * G x) s u.
Proof.
  intros [H|H]; destruct (Qlt_le_dec c 0).
  - right. intros x A B. specialize (H x A B).
    assert (0 <= (- c) * G x) by (apply Qmult_le_0_compat; lra). lra.
  - left. intros x A B. specialize (H x A B). apply Qmult_le_0_compat; lra.
  - left. intros x A B. specialize (H x A B).
    assert (0 <= (- c) * (- G x)) by (apply Qmult_le_0_compat; lra). lra.
  - right. intros x A B. specialize (H x A B).
    assert (0 <= c * (- G x)) by (apply Qmult_le_0_compat; lra). lra.
Qed.

Lemma signconst_const c s u : signconst (fun _ => c) s u.
Proof. destruct (Qlt_le_dec c 0); [right|left]; intros; lra. Qed.

Lemma signconst_lin r s u : r <= s \/ u <= r -> signconst (fun x => x - r) s u.
Proof. intros [H|H]; [left|right]; intros; lra. Qed.

Lemma signconst_two e1 e2 s u : (e1 <= s \/ u <= e1) -> (e2 <= s \/ u <= e2) ->
  signconst (fun x => (x - e1) * (x - e2)) s u.
Proof.
  intros [H1|H1] [H2|H2].
  - left. intros x A B. apply Qmult_le_0_compat; lra.
  - right. intros x A B. assert (0 <= (x - e1) * (e2 - x)) by (apply Qmult_le_0_compat; lra). lra.
  - right. intros x A B. assert (0 <= (e1 - x) * (x - e2)) by (apply Qmult_le_0_compat; lra). lra.
  - left. intros x A B. assert (0 <= (e1 - x) * (e2 - x)) by (apply Qmult_le_0_compat; lra). lra.
Qed.

Lemma clamp01 e : exists k, (e <= 0 /\ k = 0) \/ (0 < e /\ e < 1 /\ k = e) \/ (1 <= e /\ k = 1).
Proof.
  destruct (Qlt_le_dec 0 e); [destruct (Qlt_le_dec e 1)|].
  - exists e. auto.
  - exists 1. auto.
  - exists 0. auto.
Qed.

Section Range.
  Variables p0 p1 p2 p3 : Q.
  Local Notation P := (c_coord p0 p1 p2 p3).
  Local Notation D := (c_dpoly p0 p1 p2 p3).

  Lemma simpson s u : 6 * (P u - P s) == (u - s) * (D s + 4 * D ((s + u) * (1 # 2)) + D u).
  Proof. unfold c_coord, c_dpoly. ring. Qed.

  Lemma mono_up s u : s <= u -> (forall x, s <= x -> x <= u -> 0 <= D x) -> P s <= P u.
  Proof.
    intros H F. pose proof (simpson s u) as E.
    assert (0 <= D s) by (apply F; lra).
    assert (0 <= D ((s + u) * (1 # 2))) by (apply F; lra).
    assert (0 <= D u) by (apply F; lra).
    assert (0 <= (u - s) * (D s + 4 * D ((s + u) * (1 # 2)) + D u))
      by (apply Qmult_le_0_compat; lra).
    lra.
  Qed.

  Lemma mono_down s u : s <= u -> (forall x, s <= x -> x <= u -> D x <= 0) -> P u <= P s.
  Proof.
    intros H F. pose proof (simpson s u) as E.
    assert (D s <= 0) by (apply F; lra).
    assert (D ((s + u) * (1 # 2)) <= 0) by (apply F; lra).
    assert (D u <= 0) by (apply F; lra).
    assert (0 <= (u - s) * (- (D s + 4 * D ((s + u) * (1 # 2)) + D u)))
      by (apply Qmult_le_0_compat; lra).
    lra.
  Qed.

  Lemma between s u t : signconst D s u -> s <= t -> t <= u ->
    (P s <= P t /\ P t <= P u) \/ (P u <= P t /\ P t <= P s).
  Proof.
    intros [F|F] A B; [left|right]; split.
    - apply mono_up; auto. intros x X Y. apply F; lra.
    - apply mono_up; auto. intros x X Y. apply F; lra.
    - apply mono_down; auto. intros x X Y. apply F; lra.
    - apply mono_down; auto. intros x X Y. apply F; lra.
  Qed.

  Variables lo hi : Q.
  Definition bd (x : Q) : Prop := lo <= P x /\ P x <= hi.

  Lemma bd_between s u t : signconst D s u -> s <= t -> t <= u -> bd s -> bd u -> bd t.
  Proof.
    unfold bd. intros S A B Hs Hu. destruct (between s u t S A B); lra.
  Qed.

  Lemma three k1 k2 : 0 <= k1 -> k1 <= k2 -> k2 <= 1 ->
    signconst D 0 k1 -> signconst D k1 k2 -> signconst D k2 1 ->
    bd 0 -> bd k1 -> bd k2 -> bd 1 ->
    forall t, 0 <= t -> t <= 1 -> bd t.
  Proof.
    intros A B C S1 S2 S3 B0 B1 B2 B3 t H0 H1.
    destruct (Qlt_le_dec t k1); [|destruct (Qlt_le_dec t k2)].
    - apply (bd_between 0 k1); auto; lra.
    - apply (bd_between k1 k2); auto; lra.
    - apply (bd_between k2 1); auto; lra.
  Qed.

  Lemma one_root cb r : (forall x, D x == cb * (x - r)) ->
    bd 0 -> bd 1 -> (0 < r -> r < 1 -> bd r) ->
    forall t, 0 <= t -> t <= 1 -> bd t.
  Proof.
    intros HD B0 B1 Br.
    assert (S : forall s u, r <= s \/ u <= r -> signconst D s u).
    { intros s u H. apply (signconst_ext _ (fun x => cb * (x - r))); auto.
      apply signconst_scale, signconst_lin; auto. }
    destruct (clamp01 r) as (k & Hk).
    apply (three k 1); destruct Hk as [(A & ->)|[(A & A' & ->)|(A & ->)]]; auto; try lra;
      try (apply S; first [left; lra | right; lra]).
  Qed.

  Lemma two_roots ca e1 e2 : e1 <= e2 -> (forall x, D x == ca * (x - e1) * (x - e2)) ->
    bd 0 -> bd 1 -> (0 < e1 -> e1 < 1 -> bd e1) -> (0 < e2 -> e2 < 1 -> bd e2) ->
    forall t, 0 <= t -> t <= 1 -> bd t.
  Proof.
    intros Hle HD B0 B1 Be1 Be2.
    assert (S : forall s u, (e1 <= s \/ u <= e1) -> (e2 <= s \/ u <= e2) -> signconst D s u).
    { intros s u H1 H2. apply (signconst_ext _ (fun x => ca * ((x - e1) * (x - e2)))).
      - intros x. rewrite HD. ring.
      - apply signconst_scale, signconst_two; auto. }
    destruct (clamp01 e1) as (k1 & Hk1). destruct (clamp01 e2) as (k2 & Hk2).
    apply (three k1 k2);
      destruct Hk1 as [(A & ->)|[(A & A' & ->)|(A & ->)]];
      destruct Hk2 as [(B & ->)|[(B & B' & ->)|(B & ->)]]; auto; try lra;
      try (apply S; first [left; lra | right; lra]).
  Qed.

  Lemma bounded_of_spec ca cb cc L :
    (forall x, D x == ca * x * x + cb * x + cc) -> roots_spec ca cb cc L ->
    bd 0 -> bd 1 -> (forall e, In e L -> bd e) ->
    forall t, 0 <= t -> t <= 1 -> bd t.
  Proof.
    intros HD S B0 B1 BL.
    destruct S as [(A & B & HL)|[(A & B & r & Hr & HL)|[(A & B & HL)|(A & e1 & e2 & F & HL)]]].
    - (* constant derivative *)
      intros t H0 H1. apply (bd_between 0 1); auto.
      apply (signconst_ext _ (fun _ => cc)); [|apply signconst_const].
      intros x. rewrite HD, A, B. ring.
    - (* linear derivative *)
      apply (one_root cb r); auto.
      + intros x. rewrite HD, A. setoid_replace cc with (- (r * cb)) by lra. ring.
      + intros H0 H1. apply BL, HL. auto.
    - (* negative discriminant: the derivative never vanishes *)
      intros t H0 H1. apply (bd_between 0 1); auto.
      assert (E : forall x, 0 < 4 * (ca * D x)).
      { intros x. rewrite HD.
        setoid_replace (4 * (ca * (ca * x * x + cb * x + cc)))
          with ((2 * ca * x + cb) * (2 * ca * x + cb) - (cb * cb - 4 * ca * cc)) by ring.
        pose proof (sq_nonneg (2 * ca * x + cb)). lra. }
      destruct (Qlt_le_dec 0 ca).
      + left. intros x _ _. specialize (E x).
        destruct (Qlt_le_dec (D x) 0); auto. exfalso.
        assert (0 <= ca * (- D x)) by (apply Qmult_le_0_compat; lra). lra.
      + right. intros x _ _. specialize (E x).
        destruct (Qlt_le_dec 0 (D x)); auto. exfalso.
        assert (0 <= (- ca) * D x) by (apply Qmult_le_0_compat; lra). lra.
    - (* two rational roots (possibly equal) *)
      destruct (Qlt_le_dec e2 e1).
      + apply (two_roots ca e2 e1); auto; try lra.
        * intros x. rewrite HD, F. ring.
        * intros H0 H1. apply BL, HL. auto.
        * intros H0 H1. apply BL, HL. auto.
      + apply (two_roots ca e1 e2); auto.
        * intros x. rewrite HD, F. ring.
        * intros H0 H1. apply BL, HL. auto.
        * intros H0 H1. apply BL, HL. auto.
  Qed.
End Range.

Lemma cubic_range_contains_at : forall sq p0 p1 p2 p3 t,
  sqrt_ok_at sq (6 * (p2 - 2 * p1 + p0) * (6 * (p2 - 2 * p1 + p0))
                 - 4 * (3 * (p3 + 3 * (p1 - p2) - p0)) * (3 * (p1 - p0))) ->
  0 <= t -> t <= 1 ->
  fst (c_bounding_range sq p0 p1 p2 p3) <= c_coord p0 p1 p2 p3 t /\
  c_coord p0 p1 p2 p3 t <= snd (c_bounding_range sq p0 p1 p2 p3).
Proof.
  intros sq p0 p1 p2 p3 t Hsq H0 H1. unfold c_bounding_range; cbn [fst snd].
  pose proof (c_local_extrema_spec sq p0 p1 p2 p3 Hsq) as S. cbv zeta in S.
  pose proof (c_minimum_spec sq p0 p1 p2 p3) as (_ & _ & m0 & m1 & mL).
  pose proof (c_maximum_spec sq p0 p1 p2 p3) as (_ & _ & M0 & M1 & ML).
  apply (bounded_of_spec p0 p1 p2 p3 _ _ _ _ _ _ (c_dpoly_abc p0 p1 p2 p3) S); auto.
  - split; auto.
  - split; auto.
  - intros e He. split; auto.
Qed.

Lemma cubic_range_contains : forall sq p0 p1 p2 p3 t, sqrt_ok sq -> 0 <= t -> t <= 1 ->
  fst (c_bounding_range sq p0 p1 p2 p3) <= c_coord p0 p1 p2 p3 t /\
  c_coord p0 p1 p2 p3 t <= snd (c_bounding_range sq p0 p1 p2 p3).
Proof. intros sq p0 p1 p2 p3 t H. apply cubic_range_contains_at, sqrt_ok_at_of_ok, H. Qed.
