(* More of lyon_geom regenerated from the Rust source on every run (Gen/Functions.v, tools/rs2coq.py) and what the
   C10 / C11 statements say about it: the cubic's fast bounding ranges (cubic_bezier.rs: fast_bounding_range_x / y) contain
   the curve the regenerated `x` / `y` evaluate; LineSegment::solve_t_for_x / y, solve_y_for_x, solve_x_for_y (line.rs)
   invert the regenerated evaluation; `baseline` of both curves joins the curve's own end points. *)
From Coq Require Import ZArith QArith Qabs Qminmax Lqa.
From LV Require Import Base.Prelude Model.Bezier Gen.Functions Proofs.C11_Cubic Proofs.Gen_Geom.
Open Scope Q_scope.

Lemma src_cubic_fast_bounding_range_x_is_model c :
  src_cubic_fast_bounding_range_x c = c_fast_bounding_range (px (c_from c)) (px (c_ctrl1 c)) (px (c_ctrl2 c)) (px (c_to c)).
Proof. reflexivity. Qed.
Lemma src_cubic_fast_bounding_range_y_is_model c :
  src_cubic_fast_bounding_range_y c = c_fast_bounding_range (py (c_from c)) (py (c_ctrl1 c)) (py (c_ctrl2 c)) (py (c_to c)).
Proof. reflexivity. Qed.

Lemma src_cubic_fast_box_contains_curve : forall c t, 0 <= t -> t <= 1 ->
  fst (src_cubic_fast_bounding_range_x c) <= src_cubic_x c t /\ src_cubic_x c t <= snd (src_cubic_fast_bounding_range_x c) /\
  fst (src_cubic_fast_bounding_range_y c) <= src_cubic_y c t /\ src_cubic_y c t <= snd (src_cubic_fast_bounding_range_y c).
Proof.
  intros c t H0 H1.
  rewrite src_cubic_fast_bounding_range_x_is_model, src_cubic_fast_bounding_range_y_is_model,
    src_cubic_x_is_model, src_cubic_y_is_model.
  unfold c_x, c_y.
  destruct (cubic_fast_contains (px (c_from c)) (px (c_ctrl1 c)) (px (c_ctrl2 c)) (px (c_to c)) t H0 H1) as [A B].
  destruct (cubic_fast_contains (py (c_from c)) (py (c_ctrl1 c)) (py (c_ctrl2 c)) (py (c_to c)) t H0 H1) as [C D].
  repeat split; assumption.
Qed.

(* the fast range is attained by nothing smaller than the control polygon: its two ends are control ordinates *)
Lemma src_cubic_fast_box_ends_are_controls : forall c,
  let r := src_cubic_fast_bounding_range_x c in
  (fst r == px (c_from c) \/ fst r == px (c_ctrl1 c) \/ fst r == px (c_ctrl2 c) \/ fst r == px (c_to c)) /\
  (snd r == px (c_from c) \/ snd r == px (c_ctrl1 c) \/ snd r == px (c_ctrl2 c) \/ snd r == px (c_to c)).
Proof.
  intros c r. subst r. rewrite src_cubic_fast_bounding_range_x_is_model. unfold c_fast_bounding_range. cbn [fst snd].
  set (a := px (c_from c)). set (b := px (c_ctrl1 c)). set (d := px (c_ctrl2 c)). set (e := px (c_to c)).
  split.
  - destruct (Q.min_spec (Qmin (Qmin a b) d) e) as [[_ E1]|[_ E1]]; [|right; right; right; exact E1].
    destruct (Q.min_spec (Qmin a b) d) as [[_ E2]|[_ E2]]; [|right; right; left; rewrite E1; exact E2].
    destruct (Q.min_spec a b) as [[_ E3]|[_ E3]].
    + left. rewrite E1, E2. exact E3.
    + right; left. rewrite E1, E2. exact E3.
  - destruct (Q.max_spec (Qmax (Qmax a b) d) e) as [[_ E1]|[_ E1]]; [right; right; right; exact E1|].
    destruct (Q.max_spec (Qmax a b) d) as [[_ E2]|[_ E2]]; [right; right; left; rewrite E1; exact E2|].
    destruct (Q.max_spec a b) as [[_ E3]|[_ E3]].
    + right; left. rewrite E1, E2. exact E3.
    + left. rewrite E1, E2. exact E3.
Qed.

(* ---- LineSegment::solve_* invert the evaluation *)
Lemma src_line_solve_t_for_x_inverts : forall s x, ~ px (l_to s) == px (l_from s) ->
  src_line_x s (src_line_solve_t_for_x s x) == x.
Proof.
  intros s x Hne. rewrite src_line_x_is_model. unfold src_line_solve_t_for_x, l_x.
  set (a := px (l_from s)) in *. set (b := px (l_to s)) in *.
  destruct (Qeq_bool (b - a) 0) eqn:E.
  - apply Qeq_bool_iff in E. exfalso. apply Hne. lra.
  - assert (Hd : ~ b - a == 0) by (intro H; apply Hne; lra). field. exact Hd.
Qed.

Lemma src_line_solve_t_for_y_inverts : forall s y, ~ py (l_to s) == py (l_from s) ->
  src_line_y s (src_line_solve_t_for_y s y) == y.
Proof.
  intros s y Hne. rewrite src_line_y_is_model. unfold src_line_solve_t_for_y, l_y.
  set (a := py (l_from s)) in *. set (b := py (l_to s)) in *.
  destruct (Qeq_bool (b - a) 0) eqn:E.
  - apply Qeq_bool_iff in E. exfalso. apply Hne. lra.
  - assert (Hd : ~ b - a == 0) by (intro H; apply Hne; lra). field. exact Hd.
Qed.

(* the degenerate branch: a vertical (horizontal) segment answers t = 0, i.e. its `from` end *)
Lemma src_line_solve_t_degenerate : forall s v,
  (px (l_to s) == px (l_from s) -> src_line_solve_t_for_x s v = 0) /\
  (py (l_to s) == py (l_from s) -> src_line_solve_t_for_y s v = 0).
Proof.
  intros s v. split; intro H.
  - unfold src_line_solve_t_for_x. cbv zeta.
    assert (E : Qeq_bool (px (l_to s) - px (l_from s)) 0 = true) by (apply Qeq_bool_iff; lra).
    rewrite E. reflexivity.
  - unfold src_line_solve_t_for_y. cbv zeta.
    assert (E : Qeq_bool (py (l_to s) - py (l_from s)) 0 = true) by (apply Qeq_bool_iff; lra).
    rewrite E. reflexivity.
Qed.

(* solve_y_for_x / solve_x_for_y return the other coordinate of the point of the supporting line with the given one:
   (x, solve_y_for_x x) is collinear with the two ends *)
Lemma src_line_solve_y_for_x_on_line : forall s x, ~ px (l_to s) == px (l_from s) ->
  (x - px (l_from s)) * (py (l_to s) - py (l_from s)) ==
  (src_line_solve_y_for_x s x - py (l_from s)) * (px (l_to s) - px (l_from s)).
Proof.
  intros s x Hne. unfold src_line_solve_y_for_x. rewrite src_line_y_is_model. unfold src_line_solve_t_for_x, l_y.
  set (a := px (l_from s)) in *. set (b := px (l_to s)) in *.
  destruct (Qeq_bool (b - a) 0) eqn:E.
  - apply Qeq_bool_iff in E. exfalso. apply Hne. lra.
  - assert (Hd : ~ b - a == 0) by (intro H; apply Hne; lra). field. exact Hd.
Qed.

Lemma src_line_solve_x_for_y_on_line : forall s y, ~ py (l_to s) == py (l_from s) ->
  (src_line_solve_x_for_y s y - px (l_from s)) * (py (l_to s) - py (l_from s)) ==
  (y - py (l_from s)) * (px (l_to s) - px (l_from s)).
Proof.
  intros s y Hne. unfold src_line_solve_x_for_y. rewrite src_line_x_is_model. unfold src_line_solve_t_for_y, l_x.
  set (a := py (l_from s)) in *. set (b := py (l_to s)) in *.
  destruct (Qeq_bool (b - a) 0) eqn:E.
  - apply Qeq_bool_iff in E. exfalso. apply Hne. lra.
  - assert (Hd : ~ b - a == 0) by (intro H; apply Hne; lra). field. exact Hd.
Qed.

(* ---- baseline joins the curve's own end points *)
Lemma src_baselines_join_the_ends : forall (q : quad) (c : cubic),
  src_line_sample (src_quad_baseline q) 0 =p= src_quad_sample q 0 /\
  src_line_sample (src_quad_baseline q) 1 =p= src_quad_sample q 1 /\
  src_line_sample (src_cubic_baseline c) 0 =p= src_cubic_sample c 0 /\
  src_line_sample (src_cubic_baseline c) 1 =p= src_cubic_sample c 1.
Proof.
  intros [[a1 a2] [b1 b2] [d1 d2]] [[e1 e2] [f1 f2] [g1 g2] [h1 h2]].
  repeat split; cbv -[Qeq Qplus Qmult Qminus Qopp Qdiv Qinv]; try ring.
Qed.

Example solve_hypotheses_met :
  src_line_solve_t_for_x (mkLine (1, 2) (5, 10)) 2 == 1 # 4 /\ src_line_solve_y_for_x (mkLine (1, 2) (5, 10)) 2 == 4 /\
  src_cubic_fast_bounding_range_x (mkCubic (0, 0) (3, 5) ((-(2)), 1) (1, 0)) = ((-(2)), 3).
Proof. vm_compute. repeat split. Qed.
