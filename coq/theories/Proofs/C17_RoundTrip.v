(* C17 round trip: parsing the text printed for a stored path (Model/Printer.v) gives back
   exactly the builder calls of that path, without error. *)
From LV Require Import Base.Prelude Model.Parser Model.Printer.
Open Scope Z_scope.

Local Arguments Ok {A} _.
Local Arguments Err {A} _.
Local Arguments Good {F A} _.
Local Arguments Bad {F A} _ _.
Local Arguments Continue {F} _ _ _.
Local Arguments Break {F} _.
Local Arguments Fail {F} _ _.
Local Arguments mkP {F} _ _ _ _.
Local Arguments p_attr {F} _.
Local Arguments p_cur {F} _.
Local Arguments p_need_end {F} _.
Local Arguments p_out {F} _.
Local Arguments out {F} _ _.
Local Arguments set_cur {F} _ _.
Local Arguments set_attr {F} _ _.
Local Arguments set_need_end {F} _ _.
Local Arguments lift {F A} _ _.
Local Arguments ret {F A} _ _.
Local Arguments obnd {F A B} _ _.
Local Arguments mkL {F} _ _ _ _ _ _.
Local Arguments l_first {F} _.
Local Arguments l_need_start {F} _.
Local Arguments l_pc {F} _.
Local Arguments l_pq {F} _.
Local Arguments l_implicit {F} _.
Local Arguments l_oracles {F} _.
Local Arguments pnested {F} _ _.
Local Arguments PBegin {F} _ _.
Local Arguments PLine {F} _ _.
Local Arguments PQuad {F} _ _ _.
Local Arguments PCubic {F} _ _ _ _.
Local Arguments PEnd {F} _.

(* ------------------------------------------------------------ sources reading a text *)

(* the source [s] has exactly the text [l] left to read (current character included) *)
Definition reads (s : source) (l : list Z) : Prop :=
  match l with
  | [] => sr_fin s = true /\ sr_cur s = 126
  | c :: r => sr_fin s = false /\ sr_cur s = c /\ sr_rest s = r
  end.

Definition hd126 (l : list Z) : Z := match l with [] => 126 | c :: _ => c end.

(* what follows a number: the end of the text or a space *)
Definition sep (l : list Z) : Prop := match l with [] => True | c :: _ => c = 32 end.

Lemma reads_cur s l : reads s l -> sr_cur s = hd126 l.
Proof. destruct l as [|c r]; cbn; intros H; tauto. Qed.

Lemma reads_adv s c l : reads s (c :: l) -> reads (advance_one s) l.
Proof.
  destruct s as [rest cur line col fin]; cbn. intros (Hf & Hc & Hr). subst.
  unfold advance_one; cbn. destruct l as [|d r]; cbn; [tauto|].
  destruct (d =? 10) eqn:E; cbn; [apply Z.eqb_eq in E; subst|]; tauto.
Qed.

Lemma reads_fuel s l : reads s l -> (length l <= S (length (sr_rest s)))%nat.
Proof. destruct l as [|c r]; cbn; [lia|]. intros (_ & _ & ->). lia. Qed.

Lemma sep_hd rest : sep rest -> hd126 rest = 32 \/ hd126 rest = 126.
Proof. destruct rest; cbn; auto. Qed.

(* ------------------------------------------------------------ the shape of a number text *)

Fixpoint take_digits (l : list Z) : list Z :=
  match l with
  | c :: r => if is_digit c then c :: take_digits r else []
  | [] => []
  end.

Lemma take_drop l : take_digits l ++ drop_digits l = l.
Proof. induction l as [|c r IH]; cbn; [reflexivity|]. destruct (is_digit c); cbn; [rewrite IH|]; reflexivity. Qed.

Lemma take_all l : drop_digits l = [] -> take_digits l = l.
Proof. intros H. pose proof (take_drop l) as E. rewrite H, app_nil_r in E. exact E. Qed.

Definition strip (k : Z) (l : list Z) : list Z :=
  match l with c :: r => if c =? k then r else l | [] => [] end.
Definition sh_dot (l : list Z) : list Z :=
  match l with c :: r => if c =? 46 then drop_digits r else l | [] => [] end.
Definition sh_exp (l : list Z) : list Z :=
  match l with
  | c :: r => if (c =? 101) || (c =? 69) then drop_digits (strip 45 r) else l
  | [] => []
  end.

Lemma strip45_eq (l : list Z) : (match l with 45 :: r => r | _ => l end) = strip 45 l.
Proof.
  destruct l as [|c r]; [reflexivity|]. unfold strip.
  destruct c as [|p|p]; try reflexivity.
  do 6 (destruct p as [p|p|]; try reflexivity).
Qed.

Lemma dot46_eq (l : list Z) : (match l with 46 :: r => drop_digits r | _ => l end) = sh_dot l.
Proof.
  destruct l as [|c r]; [reflexivity|]. unfold sh_dot.
  destruct c as [|p|p]; try reflexivity.
  do 6 (destruct p as [p|p|]; try reflexivity).
Qed.

Lemma exp_eq (l : list Z) :
  (match l with
   | c :: r => if (c =? 101) || (c =? 69)
               then drop_digits (match r with 45 :: q => q | _ => r end) else l
   | [] => []
   end) = sh_exp l.
Proof. destruct l as [|c r]; [reflexivity|]. unfold sh_exp. rewrite strip45_eq. reflexivity. Qed.

Lemma num_shape_eq l :
  num_shape l = match l with
                | [] => false
                | _ => match sh_exp (sh_dot (drop_digits (strip 45 l))) with [] => true | _ => false end
                end.
Proof.
  unfold num_shape. cbv zeta. rewrite strip45_eq, dot46_eq, exp_eq. reflexivity.
Qed.

Lemma is_digit_range c : is_digit c = true -> 0 <= c < 128.
Proof. unfold is_digit. rewrite andb_true_iff, !Z.leb_le. lia. Qed.

(* the first character of a number text *)
Lemma num_shape_hd l : num_shape l = true -> exists c r, l = c :: r /\ 33 <= c < 128 /\ c <> 44.
Proof.
  rewrite num_shape_eq. destruct l as [|c r]; [discriminate|]. intros H.
  exists c, r. split; [reflexivity|].
  unfold strip in H. destruct (Z.eqb_spec c 45) as [->|N45]; [lia|].
  cbn [drop_digits] in H. destruct (is_digit c) eqn:Ed.
  { unfold is_digit in Ed. rewrite andb_true_iff, !Z.leb_le in Ed. lia. }
  unfold sh_dot in H. destruct (Z.eqb_spec c 46) as [->|N46]; [lia|].
  unfold sh_exp in H. destruct (Z.eqb_spec c 101) as [->|N101]; [lia|].
  destruct (Z.eqb_spec c 69) as [->|N69]; [lia|]. cbn in H. discriminate.
Qed.

Section RoundTrip.
Variable F : Type.
Variables (fzero fone : F) (fadd fsub fmul : F -> F -> F).
Variable parse_f32 : list Z -> option F.
Variables is_ws is_num : Z -> bool.
Variable n_attr : nat.
Variable stop_at : option Z.
Variable fmt : F -> list Z.

(* a number survives the round trip when its text has the shape the lexer consumes and converts back to it *)
Definition num_ok (v : F) : Prop := num_shape (fmt v) = true /\ parse_f32 (fmt v) = Some v.

Definition call_ok (c : pcall F) : Prop :=
  Forall num_ok (call_nums F c) /\ (forall n, call_attrs_len F c = Some n -> n = n_attr).

Section Helpers.
Hypothesis Hnum : forall c, 0 <= c < 128 -> is_num c = is_digit c.
Hypothesis Hws32 : is_ws 32 = true.
Hypothesis Hws : forall c, 33 <= c < 128 -> is_ws c = false.
Hypothesis Hstop : forall c, stop_at = Some c -> ~ In c [77; 76; 81; 67; 90].

Local Notation pnum := (parse_number F parse_f32 is_ws is_num).
Local Notation skipws := (skip_whitespace is_ws).
Local Notation pattrs_go := (parse_attrs_go F parse_f32 is_ws is_num).
Local Notation pattrs := (parse_attributes F parse_f32 is_ws is_num n_attr).
Local Notation ppoint := (parse_point F fadd parse_f32 is_ws is_num).
Local Notation pendpoint := (parse_endpoint F fadd parse_f32 is_ws is_num n_attr).
Local Notation pstep := (parse_step F fone fadd fsub fmul parse_f32 is_ws is_num n_attr stop_at).
Local Notation ploop := (parse_loop F fone fadd fsub fmul parse_f32 is_ws is_num n_attr stop_at).
Local Notation prun := (parse F fzero fone fadd fsub fmul parse_f32 is_ws is_num n_attr stop_at).

(* ------------------------------------------------------------ skip_whitespace *)

Definition nonws (l : list Z) : Prop := l = [] \/ (33 <= hd126 l < 128 /\ hd126 l <> 44).

Lemma skip_ws_go_stop fuel s l : reads s l -> nonws l -> skip_ws_go is_ws fuel s = s.
Proof.
  intros Hr Hn. destruct fuel as [|f]; [reflexivity|]. cbn [skip_ws_go].
  destruct Hn as [->|(Hc & N44)].
  - destruct Hr as (-> & _). reflexivity.
  - rewrite (reads_cur _ _ Hr). rewrite (Hws _ Hc).
    destruct (Z.eqb_spec (hd126 l) 44) as [E|_]; [contradiction|].
    rewrite andb_false_r. reflexivity.
Qed.

Lemma skip_32 s l : reads s (32 :: l) -> nonws l -> skipws s = advance_one s.
Proof.
  intros Hr Hn. unfold skip_whitespace. cbn [skip_ws_go].
  destruct Hr as (Hf & Hc & Hrest). rewrite Hf, Hc, Hws32. cbn [negb andb orb].
  eapply skip_ws_go_stop; [|exact Hn]. apply reads_adv with (c := 32). cbn. auto.
Qed.

(* ------------------------------------------------------------ take_num *)

Lemma take_num_go_rt x : forall fuel s buf rest,
  reads s (x ++ rest) -> is_num (hd126 (drop_digits x ++ rest)) = false ->
  (length (x ++ rest) <= fuel)%nat ->
  exists s', take_num_go is_num fuel s buf = (s', buf ++ take_digits x)
             /\ reads s' (drop_digits x ++ rest).
Proof.
  induction x as [|c x IH]; intros fuel s buf rest Hr Hn Hf.
  - cbn in *. exists s. rewrite app_nil_r. split; [|exact Hr].
    destruct fuel as [|f]; [reflexivity|]. cbn [take_num_go].
    rewrite (reads_cur _ _ Hr), Hn. reflexivity.
  - cbn [drop_digits take_digits] in *. destruct (is_digit c) eqn:Ed.
    + destruct fuel as [|f]; [cbn in Hf; lia|]. cbn [take_num_go].
      pose proof (reads_cur _ _ Hr) as Hc. cbn in Hc. rewrite Hc.
      rewrite (Hnum _ (is_digit_range _ Ed)), Ed.
      destruct (IH f (advance_one s) (buf ++ [c]) rest) as (s' & E & Hr').
      { apply reads_adv with (c := c). exact Hr. }
      { exact Hn. }
      { cbn in Hf. lia. }
      exists s'. rewrite E, <- app_assoc. cbn. split; [reflexivity|exact Hr'].
    + exists s. rewrite app_nil_r. split; [|exact Hr].
      destruct fuel as [|f]; [reflexivity|]. cbn [take_num_go].
      pose proof (reads_cur _ _ Hr) as Hc. cbn in Hc, Hn. rewrite Hc, Hn. reflexivity.
Qed.

Lemma take_num_rt s buf x rest :
  reads s (x ++ rest) -> is_num (hd126 (drop_digits x ++ rest)) = false ->
  exists s', take_num is_num s buf = (s', buf ++ take_digits x)
             /\ reads s' (drop_digits x ++ rest).
Proof.
  intros Hr Hn. unfold take_num. apply take_num_go_rt; auto. apply reads_fuel, Hr.
Qed.

Lemma isnum_sep rest : sep rest -> is_num (hd126 rest) = false.
Proof.
  intros Hs. destruct (sep_hd _ Hs) as [-> | ->]; rewrite Hnum by lia; reflexivity.
Qed.

Lemma sh_exp_hd y rest : sh_exp y = [] -> sep rest -> is_num (hd126 (y ++ rest)) = false.
Proof.
  intros H Hs. destruct y as [|c r]; [apply isnum_sep, Hs|]. cbn [app hd126].
  unfold sh_exp in H. destruct (Z.eqb_spec c 101) as [->|N1]; [rewrite Hnum by lia; reflexivity|].
  destruct (Z.eqb_spec c 69) as [->|N2]; [rewrite Hnum by lia; reflexivity|].
  cbn in H. discriminate.
Qed.

Lemma sh_dot_hd y rest : sh_exp (sh_dot y) = [] -> sep rest -> is_num (hd126 (y ++ rest)) = false.
Proof.
  intros H Hs. destruct y as [|c r]; [apply isnum_sep, Hs|].
  unfold sh_dot in H. destruct (Z.eqb_spec c 46) as [->|N1].
  - cbn. rewrite Hnum by lia. reflexivity.
  - apply sh_exp_hd; assumption.
Qed.

(* ------------------------------------------------------------ parse_number, stage by stage *)

Definition st_sign (s : source) : source * list Z :=
  if sr_cur s =? 45 then (advance_one s, [45]) else (s, []).
Definition st_dot (s : source) (buf : list Z) : source * list Z :=
  if sr_cur s =? 46 then take_num is_num (advance_one s) (buf ++ [46]) else (s, buf).
Definition st_exp (s : source) (buf : list Z) : source * list Z :=
  if (sr_cur s =? 101) || (sr_cur s =? 69) then
    let b := buf ++ [sr_cur s] in
    let s := advance_one s in
    let '(s, b) := if sr_cur s =? 45 then (advance_one s, b ++ [45]) else (s, b) in
    take_num is_num s b
  else (s, buf).

Lemma parse_number_eq s0 :
  pnum s0 =
  let s := skipws s0 in
  let '(s1, b1) := st_sign s in
  let '(s2, b2) := take_num is_num s1 b1 in
  let '(s3, b3) := st_dot s2 b2 in
  let '(s4, b4) := st_exp s3 b3 in
  match parse_f32 b4 with
  | Some v => Ok (v, s4)
  | None => Err (ENumber b4 (sr_line s) (sr_col s))
  end.
Proof. reflexivity. Qed.

Lemma st_sign_rt s x rest : reads s (x ++ rest) -> sep rest ->
  exists s' b, st_sign s = (s', b) /\ reads s' (strip 45 x ++ rest) /\ b ++ strip 45 x = x.
Proof.
  intros Hr Hs. unfold st_sign. rewrite (reads_cur _ _ Hr). destruct x as [|c r].
  - cbn. exists s, []. destruct (sep_hd _ Hs) as [-> | ->]; cbn; auto.
  - cbn [app hd126 strip]. destruct (Z.eqb_spec c 45) as [->|N].
    + exists (advance_one s), [45]. split; [reflexivity|]. split; [|reflexivity].
      apply reads_adv with (c := 45). exact Hr.
    + exists s, []. auto.
Qed.

Lemma st_dot_rt s buf x rest : reads s (x ++ rest) -> sep rest -> sh_exp (sh_dot x) = [] ->
  exists s' y, st_dot s buf = (s', buf ++ y) /\ reads s' (sh_dot x ++ rest) /\ y ++ sh_dot x = x.
Proof.
  intros Hr Hs H. unfold st_dot. rewrite (reads_cur _ _ Hr). destruct x as [|c r].
  - cbn. exists s, []. rewrite app_nil_r. destruct (sep_hd _ Hs) as [-> | ->]; cbn; auto.
  - cbn [app hd126 sh_dot] in *. destruct (Z.eqb_spec c 46) as [->|N].
    + destruct (take_num_rt (advance_one s) (buf ++ [46]) r rest) as (s' & E & Hr').
      { apply reads_adv with (c := 46). exact Hr. }
      { apply sh_exp_hd; assumption. }
      exists s', (46 :: take_digits r). rewrite E, <- app_assoc. cbn.
      rewrite take_drop. auto.
    + exists s, []. rewrite app_nil_r. auto.
Qed.

Lemma st_exp_rt s buf x rest : reads s (x ++ rest) -> sep rest -> sh_exp x = [] ->
  exists s', st_exp s buf = (s', buf ++ x) /\ reads s' rest.
Proof.
  intros Hr Hs H. unfold st_exp. rewrite (reads_cur _ _ Hr). destruct x as [|c r].
  - cbn. exists s. rewrite app_nil_r. destruct (sep_hd _ Hs) as [-> | ->]; cbn; auto.
  - cbn [app hd126 sh_exp] in *.
    destruct ((c =? 101) || (c =? 69)) eqn:Ee; [|discriminate].
    cbv zeta. pose proof (reads_adv _ _ _ Hr) as Hr2.
    rewrite (reads_cur _ _ Hr2). destruct r as [|c2 q].
    + cbn [app hd126] in Hr2 |- *. destruct (sep_hd _ Hs) as [E | E]; rewrite E.
      * change (32 =? 45) with false. cbv iota.
        destruct (take_num_rt (advance_one s) (buf ++ [c]) [] rest Hr2) as (s' & E' & Hr').
        { cbn. apply isnum_sep, Hs. }
        exists s'. rewrite E'. cbn. rewrite app_nil_r. auto.
      * change (126 =? 45) with false. cbv iota.
        destruct (take_num_rt (advance_one s) (buf ++ [c]) [] rest Hr2) as (s' & E' & Hr').
        { cbn. apply isnum_sep, Hs. }
        exists s'. rewrite E'. cbn. rewrite app_nil_r. auto.
    + cbn [app hd126 strip] in *. destruct (Z.eqb_spec c2 45) as [->|N].
      * destruct (take_num_rt (advance_one (advance_one s)) ((buf ++ [c]) ++ [45]) q rest)
          as (s' & E' & Hr').
        { apply reads_adv with (c := 45). exact Hr2. }
        { rewrite H. cbn. apply isnum_sep, Hs. }
        exists s'. rewrite E', H in *. rewrite (take_all _ H), <- !app_assoc. cbn. auto.
      * destruct (take_num_rt (advance_one s) (buf ++ [c]) (c2 :: q) rest Hr2) as (s' & E' & Hr').
        { rewrite H. cbn. apply isnum_sep, Hs. }
        exists s'. rewrite E', H in *. rewrite (take_all _ H), <- !app_assoc. cbn. auto.
Qed.

Lemma parse_number_rt s v rest :
  reads s (32 :: fmt v ++ rest) -> num_ok v -> sep rest ->
  exists s', pnum s = Ok (v, s') /\ reads s' rest.
Proof.
  intros Hr (Hsh & Hp) Hs.
  destruct (num_shape_hd _ Hsh) as (c & r & Ex & Hc & N44).
  rewrite parse_number_eq. cbv zeta.
  rewrite (skip_32 s (fmt v ++ rest) Hr).
  2:{ right. rewrite Ex. cbn. auto. }
  pose proof (reads_adv _ _ _ Hr) as Hr1.
  rewrite num_shape_eq in Hsh. rewrite Ex in Hsh. rewrite <- Ex in Hsh.
  destruct (sh_exp (sh_dot (drop_digits (strip 45 (fmt v))))) eqn:Hsh'; [clear Hsh|discriminate].
  destruct (st_sign_rt _ _ _ Hr1 Hs) as (s1 & b1 & E1 & Hr2 & Eb1). rewrite E1.
  destruct (take_num_rt s1 b1 _ _ Hr2) as (s2 & E2 & Hr3).
  { apply sh_dot_hd; assumption. }
  rewrite E2.
  destruct (st_dot_rt s2 (b1 ++ take_digits (strip 45 (fmt v))) _ _ Hr3 Hs Hsh')
    as (s3 & y & E3 & Hr4 & Ey). rewrite E3.
  destruct (st_exp_rt s3 ((b1 ++ take_digits (strip 45 (fmt v))) ++ y) _ _ Hr4 Hs Hsh')
    as (s4 & E4 & Hr5). rewrite E4.
  assert (Eb : ((b1 ++ take_digits (strip 45 (fmt v))) ++ y)
               ++ sh_dot (drop_digits (strip 45 (fmt v))) = fmt v).
  { rewrite <- !app_assoc, Ey, take_drop. exact Eb1. }
  rewrite Eb, Hp. exists s4. auto.
Qed.

(* ------------------------------------------------------------ points, attributes *)

Lemma sep_attrs a rest : sep rest -> sep (pr_attrs F fmt a ++ rest).
Proof. destruct a as [|v a]; cbn; auto. Qed.

Lemma sep_point p rest : sep (pr_point F fmt p ++ rest).
Proof. cbn. reflexivity. Qed.

Lemma parse_point_rt st s p rest :
  reads s (pr_point F fmt p ++ rest) -> num_ok (fst p) -> num_ok (snd p) -> sep rest ->
  exists s', ppoint st false s = Good (p, s') /\ reads s' rest.
Proof.
  intros Hr Hx Hy Hs. unfold pr_point, pr_num in Hr. rewrite <- app_assoc in Hr.
  cbn [app] in Hr.
  destruct (parse_number_rt s (fst p) (32 :: fmt (snd p) ++ rest) Hr Hx) as (s1 & E1 & Hr1).
  { cbn. reflexivity. }
  destruct (parse_number_rt s1 (snd p) rest Hr1 Hy Hs) as (s2 & E2 & Hr2).
  exists s2. split; [|exact Hr2]. unfold parse_point.
  rewrite E1. cbn [lift obnd]. rewrite E2. cbn [lift obnd]. destruct p; reflexivity.
Qed.

Lemma parse_attrs_go_rt a : forall st s rest,
  reads s (pr_attrs F fmt a ++ rest) -> Forall num_ok a -> sep rest ->
  exists s', pattrs_go (length a) st s = Good (set_attr st (p_attr st ++ a), s') /\ reads s' rest.
Proof.
  induction a as [|v a IH]; intros st s rest Hr Ha Hs.
  - exists s. split; [|exact Hr]. cbn. rewrite app_nil_r. destruct st; reflexivity.
  - inversion Ha as [|v' a' Hv Ha']; subst.
    unfold pr_attrs in Hr. cbn [flat_map] in Hr. unfold pr_num at 1 in Hr.
    rewrite <- app_assoc in Hr. cbn [app] in Hr.
    destruct (parse_number_rt s v _ Hr Hv (sep_attrs a rest Hs)) as (s1 & E1 & Hr1).
    destruct (IH (set_attr st (p_attr st ++ [v])) s1 rest Hr1 Ha' Hs) as (s2 & E2 & Hr2).
    exists s2. split; [|exact Hr2]. cbn [length parse_attrs_go]. rewrite E1, E2.
    unfold set_attr; cbn. rewrite <- app_assoc. reflexivity.
Qed.

Lemma parse_endpoint_rt st s p a rest :
  reads s (pr_point F fmt p ++ pr_attrs F fmt a ++ rest) ->
  num_ok (fst p) -> num_ok (snd p) -> Forall num_ok a -> length a = n_attr -> sep rest ->
  exists s', pendpoint st false s = Good (p, set_attr (set_cur st p) a, s') /\ reads s' rest.
Proof.
  intros Hr Hx Hy Ha Hl Hs.
  destruct (parse_point_rt st s p _ Hr Hx Hy (sep_attrs a rest Hs)) as (s1 & E1 & Hr1).
  destruct (parse_attrs_go_rt a (set_attr (set_cur st p) []) s1 rest Hr1 Ha Hs) as (s2 & E2 & Hr2).
  exists s2. split; [|exact Hr2]. unfold parse_endpoint. rewrite E1. cbn [obnd].
  unfold parse_attributes. rewrite <- Hl, E2. cbn [obnd]. reflexivity.
Qed.

(* ------------------------------------------------------------ the printed text *)

Definition letters : list Z := [77; 76; 81; 67; 90].

Lemma print_shape cs :
  print F fmt cs = [] \/ exists L r, print F fmt cs = 32 :: L :: r /\ In L letters.
Proof.
  induction cs as [|c cs IH]; [left; reflexivity|].
  unfold print in *. cbn [flat_map].
  destruct c as [p a|p a|c p a|c1 c2 p a|[|]]; cbn [pr_call app];
    try (right; eexists; eexists; split; [reflexivity|cbn; tauto]).
  exact IH.
Qed.

Lemma sep_print cs : sep (print F fmt cs).
Proof.
  destruct (print_shape cs) as [-> | (L & r & -> & _)]; cbn; auto.
Qed.

Lemma letter_range L : In L letters -> 33 <= L < 128 /\ L <> 44.
Proof. cbn. intros [<-|[<-|[<-|[<-|[<-|[]]]]]]; lia. Qed.

Lemma skip_print s cs : reads s (print F fmt cs) -> reads (skipws s) (tl (print F fmt cs)).
Proof.
  intros Hr. destruct (print_shape cs) as [E | (L & r & E & HL)]; rewrite E in *.
  - unfold skip_whitespace. rewrite (skip_ws_go_stop _ s [] Hr); [exact Hr|left; reflexivity].
  - rewrite (skip_32 s (L :: r) Hr).
    + cbn [tl]. apply reads_adv with (c := 32). exact Hr.
    + right. cbn. apply letter_range, HL.
Qed.

Lemma stop_false L : In L letters ->
  match stop_at with Some c => c =? L | None => false end = false.
Proof.
  intros HL. destruct stop_at as [c|] eqn:E; [|reflexivity].
  destruct (Z.eqb_spec c L) as [->|N]; [|reflexivity].
  exfalso. exact (Hstop L eq_refl HL).
Qed.

(* ------------------------------------------------------------ one lemma per command letter *)

Ltac step_eval :=
  cbv beta iota zeta delta [is_alpha to_lower is_lower andb orb negb Z.eqb Z.leb Z.compare
    Pos.compare Pos.compare_cont Pos.eqb Z.add Pos.add Pos.succ Pos.add_carry CompOpp].

Lemma step_L st l s p a rest :
  reads s (76 :: pr_point F fmt p ++ pr_attrs F fmt a ++ rest) ->
  l_need_start l = false ->
  num_ok (fst p) -> num_ok (snd p) -> Forall num_ok a -> length a = n_attr -> sep rest ->
  exists l' s', pstep st l s = Continue (out (set_attr (set_cur st p) a) (PLine p a)) l' (skipws s')
                /\ reads s' rest /\ l_need_start l' = false.
Proof.
  intros Hr Hns Hx Hy Ha Hl Hs.
  pose proof (reads_cur _ _ Hr) as Hc. cbn [hd126] in Hc.
  pose proof (reads_adv _ _ _ Hr) as Hr1.
  destruct (parse_endpoint_rt st (advance_one s) p a rest Hr1 Hx Hy Ha Hl Hs) as (s' & E & Hr').
  unfold parse_step. rewrite Hc, Hns. rewrite stop_false by (cbn; tauto).
  step_eval. rewrite E. cbn [ret p_attr set_attr].
  eexists; exists s'. split; [reflexivity|]. split; [exact Hr'|reflexivity].
Qed.

Lemma step_M st l s p a rest :
  reads s (77 :: pr_point F fmt p ++ pr_attrs F fmt a ++ rest) ->
  num_ok (fst p) -> num_ok (snd p) -> Forall num_ok a -> length a = n_attr -> sep rest ->
  exists l' s',
    pstep st l s =
    Continue (set_need_end
                (out (set_attr (set_cur (if p_need_end st then set_need_end (out st (PEnd false)) false
                                         else st) p) a) (PBegin p a)) true) l' (skipws s')
    /\ reads s' rest /\ l_need_start l' = false.
Proof.
  intros Hr Hx Hy Ha Hl Hs.
  pose proof (reads_cur _ _ Hr) as Hc. cbn [hd126] in Hc.
  pose proof (reads_adv _ _ _ Hr) as Hr1.
  destruct (parse_endpoint_rt (if p_need_end st then set_need_end (out st (PEnd false)) false else st)
              (advance_one s) p a rest Hr1 Hx Hy Ha Hl Hs) as (s' & E & Hr').
  unfold parse_step. rewrite Hc. rewrite stop_false by (cbn; tauto).
  destruct (l_need_start l); step_eval; rewrite E; cbn [ret p_attr set_attr];
    (eexists; exists s'; split; [reflexivity|]; split; [exact Hr'|reflexivity]).
Qed.

Lemma step_Q st l s c p a rest :
  reads s (81 :: pr_point F fmt c ++ pr_point F fmt p ++ pr_attrs F fmt a ++ rest) ->
  l_need_start l = false ->
  num_ok (fst c) -> num_ok (snd c) ->
  num_ok (fst p) -> num_ok (snd p) -> Forall num_ok a -> length a = n_attr -> sep rest ->
  exists l' s', pstep st l s = Continue (out (set_attr (set_cur st p) a) (PQuad c p a)) l' (skipws s')
                /\ reads s' rest /\ l_need_start l' = false.
Proof.
  intros Hr Hns Hcx Hcy Hx Hy Ha Hl Hs.
  pose proof (reads_cur _ _ Hr) as Hc. cbn [hd126] in Hc.
  pose proof (reads_adv _ _ _ Hr) as Hr1.
  destruct (parse_point_rt st (advance_one s) c _ Hr1 Hcx Hcy (sep_point p _)) as (s1 & E1 & Hr2).
  destruct (parse_endpoint_rt st s1 p a rest Hr2 Hx Hy Ha Hl Hs) as (s' & E & Hr').
  unfold parse_step. rewrite Hc, Hns. rewrite stop_false by (cbn; tauto).
  step_eval. rewrite E1. cbn [ret]. rewrite E. cbn [ret p_attr set_attr].
  eexists; exists s'. split; [reflexivity|]. split; [exact Hr'|reflexivity].
Qed.

Lemma step_C st l s c1 c2 p a rest :
  reads s (67 :: pr_point F fmt c1 ++ pr_point F fmt c2 ++ pr_point F fmt p
              ++ pr_attrs F fmt a ++ rest) ->
  l_need_start l = false ->
  num_ok (fst c1) -> num_ok (snd c1) -> num_ok (fst c2) -> num_ok (snd c2) ->
  num_ok (fst p) -> num_ok (snd p) -> Forall num_ok a -> length a = n_attr -> sep rest ->
  exists l' s', pstep st l s = Continue (out (set_attr (set_cur st p) a) (PCubic c1 c2 p a)) l' (skipws s')
                /\ reads s' rest /\ l_need_start l' = false.
Proof.
  intros Hr Hns H1x H1y H2x H2y Hx Hy Ha Hl Hs.
  pose proof (reads_cur _ _ Hr) as Hc. cbn [hd126] in Hc.
  pose proof (reads_adv _ _ _ Hr) as Hr1.
  destruct (parse_point_rt st (advance_one s) c1 _ Hr1 H1x H1y (sep_point c2 _)) as (s1 & E1 & Hr2).
  destruct (parse_point_rt st s1 c2 _ Hr2 H2x H2y (sep_point p _)) as (s2 & E2 & Hr3).
  destruct (parse_endpoint_rt st s2 p a rest Hr3 Hx Hy Ha Hl Hs) as (s' & E & Hr').
  unfold parse_step. rewrite Hc, Hns. rewrite stop_false by (cbn; tauto).
  step_eval. rewrite E1. cbn [ret]. rewrite E2. cbn [ret]. rewrite E. cbn [ret p_attr set_attr].
  eexists; exists s'. split; [reflexivity|]. split; [exact Hr'|reflexivity].
Qed.

Lemma step_Z st l s rest :
  reads s (90 :: rest) -> l_need_start l = false ->
  exists l', pstep st l s =
             Continue (set_need_end (set_cur (out st (PEnd true)) (l_first l)) false) l'
                      (skipws (advance_one s)).
Proof.
  intros Hr Hns.
  pose proof (reads_cur _ _ Hr) as Hc. cbn [hd126] in Hc.
  unfold parse_step. rewrite Hc, Hns. rewrite stop_false by (cbn; tauto).
  step_eval. eexists. reflexivity.
Qed.

(* ------------------------------------------------------------ the loop *)

Definition fin_out (st : pstate F) : list (pcall F) :=
  if p_need_end st then p_out st ++ [PEnd false] else p_out st.

Lemma loop_rt : forall cs o fuel st l s,
  pnested o cs = true -> Forall call_ok cs ->
  reads s (tl (print F fmt cs)) -> (length (print F fmt cs) < fuel)%nat ->
  (o = true -> p_need_end st = true /\ l_need_start l = false) ->
  exists st', ploop fuel st l s = (st', None)
              /\ fin_out st' = (if o then p_out st else fin_out st) ++ cs.
Proof.
  induction cs as [|c cs IH]; intros o fuel st l s Hn Hok Hr Hf Ho.
  - cbn in Hn. destruct o; [discriminate|]. destruct fuel as [|f]; [lia|].
    cbn in Hr. destruct Hr as (Hfin & _). cbn [parse_loop]. rewrite Hfin.
    exists st. rewrite app_nil_r. auto.
  - inversion Hok as [|c' cs' Hc Hcs]; subst c' cs'.
    assert (Hsp := sep_print cs).
    destruct c as [p a|p a|c p a|c1 c2 p a|b].
    + (* PBegin *)
      cbn [pnested] in Hn. destruct o; [discriminate|]. cbn [negb andb] in Hn.
      destruct Hc as (Hnums & Hlen). cbn [call_nums app] in Hnums.
      inversion Hnums as [|? ? Hx Hn1]; subst. inversion Hn1 as [|? ? Hy Ha]; subst.
      specialize (Hlen _ eq_refl).
      unfold print in Hr, Hf. cbn [flat_map pr_call] in Hr, Hf. fold (print F fmt cs) in Hr, Hf.
      rewrite <- !app_assoc in Hr, Hf. cbn [app tl] in Hr, Hf.
      destruct fuel as [|f]; [lia|]. cbn [parse_loop].
      pose proof Hr as (Hfin & _). rewrite Hfin.
      destruct (step_M st l s p a _ Hr Hx Hy Ha Hlen Hsp) as (l' & s' & E & Hr' & Hns').
      rewrite E.
      match goal with |- context [parse_loop _ _ _ _ _ _ _ _ _ _ f ?st2 l' _] =>
        destruct (IH true f st2 l' (skipws s') Hn Hcs (skip_print _ _ Hr')) as (st' & E' & Hout) end.
      { cbn [length] in Hf. rewrite !app_length in Hf. lia. }
      { intros _. split; [reflexivity|exact Hns']. }
      exists st'. split; [exact E'|]. rewrite Hout. cbn [p_out set_need_end out set_attr set_cur].
      unfold fin_out. destruct (p_need_end st); cbn [p_out set_need_end out];
        rewrite <- app_assoc; reflexivity.
    + (* PLine *)
      cbn [pnested] in Hn. destruct o; [|discriminate]. cbn [andb] in Hn.
      destruct (Ho eq_refl) as (Hne & Hns).
      destruct Hc as (Hnums & Hlen). cbn [call_nums app] in Hnums.
      inversion Hnums as [|? ? Hx Hn1]; subst. inversion Hn1 as [|? ? Hy Ha]; subst.
      specialize (Hlen _ eq_refl).
      unfold print in Hr, Hf. cbn [flat_map pr_call] in Hr, Hf. fold (print F fmt cs) in Hr, Hf.
      rewrite <- !app_assoc in Hr, Hf. cbn [app tl] in Hr, Hf.
      destruct fuel as [|f]; [lia|]. cbn [parse_loop].
      pose proof Hr as (Hfin & _). rewrite Hfin.
      destruct (step_L st l s p a _ Hr Hns Hx Hy Ha Hlen Hsp) as (l' & s' & E & Hr' & Hns').
      rewrite E.
      match goal with |- context [parse_loop _ _ _ _ _ _ _ _ _ _ f ?st2 l' _] =>
        destruct (IH true f st2 l' (skipws s') Hn Hcs (skip_print _ _ Hr')) as (st' & E' & Hout) end.
      { cbn [length] in Hf. rewrite !app_length in Hf. lia. }
      { intros _. split; [exact Hne|exact Hns']. }
      exists st'. split; [exact E'|]. rewrite Hout. cbn [p_out out set_attr set_cur].
      rewrite <- app_assoc; reflexivity.
    + (* PQuad *)
      cbn [pnested] in Hn. destruct o; [|discriminate]. cbn [andb] in Hn.
      destruct (Ho eq_refl) as (Hne & Hns).
      destruct Hc as (Hnums & Hlen). cbn [call_nums app] in Hnums.
      inversion Hnums as [|? ? Hcx Hn1]; subst. inversion Hn1 as [|? ? Hcy Hn2]; subst.
      inversion Hn2 as [|? ? Hx Hn3]; subst. inversion Hn3 as [|? ? Hy Ha]; subst.
      specialize (Hlen _ eq_refl).
      unfold print in Hr, Hf. cbn [flat_map pr_call] in Hr, Hf. fold (print F fmt cs) in Hr, Hf.
      rewrite <- !app_assoc in Hr, Hf. cbn [app tl] in Hr, Hf.
      destruct fuel as [|f]; [lia|]. cbn [parse_loop].
      pose proof Hr as (Hfin & _). rewrite Hfin.
      destruct (step_Q st l s c p a _ Hr Hns Hcx Hcy Hx Hy Ha Hlen Hsp) as (l' & s' & E & Hr' & Hns').
      rewrite E.
      match goal with |- context [parse_loop _ _ _ _ _ _ _ _ _ _ f ?st2 l' _] =>
        destruct (IH true f st2 l' (skipws s') Hn Hcs (skip_print _ _ Hr')) as (st' & E' & Hout) end.
      { cbn [length] in Hf. rewrite !app_length in Hf. lia. }
      { intros _. split; [exact Hne|exact Hns']. }
      exists st'. split; [exact E'|]. rewrite Hout. cbn [p_out out set_attr set_cur].
      rewrite <- app_assoc; reflexivity.
    + (* PCubic *)
      cbn [pnested] in Hn. destruct o; [|discriminate]. cbn [andb] in Hn.
      destruct (Ho eq_refl) as (Hne & Hns).
      destruct Hc as (Hnums & Hlen). cbn [call_nums app] in Hnums.
      inversion Hnums as [|? ? H1x Hn1]; subst. inversion Hn1 as [|? ? H1y Hn2]; subst.
      inversion Hn2 as [|? ? H2x Hn3]; subst. inversion Hn3 as [|? ? H2y Hn4]; subst.
      inversion Hn4 as [|? ? Hx Hn5]; subst. inversion Hn5 as [|? ? Hy Ha]; subst.
      specialize (Hlen _ eq_refl).
      unfold print in Hr, Hf. cbn [flat_map pr_call] in Hr, Hf. fold (print F fmt cs) in Hr, Hf.
      rewrite <- !app_assoc in Hr, Hf. cbn [app tl] in Hr, Hf.
      destruct fuel as [|f]; [lia|]. cbn [parse_loop].
      pose proof Hr as (Hfin & _). rewrite Hfin.
      destruct (step_C st l s c1 c2 p a _ Hr Hns H1x H1y H2x H2y Hx Hy Ha Hlen Hsp)
        as (l' & s' & E & Hr' & Hns').
      rewrite E.
      match goal with |- context [parse_loop _ _ _ _ _ _ _ _ _ _ f ?st2 l' _] =>
        destruct (IH true f st2 l' (skipws s') Hn Hcs (skip_print _ _ Hr')) as (st' & E' & Hout) end.
      { cbn [length] in Hf. rewrite !app_length in Hf. lia. }
      { intros _. split; [exact Hne|exact Hns']. }
      exists st'. split; [exact E'|]. rewrite Hout. cbn [p_out out set_attr set_cur].
      rewrite <- app_assoc; reflexivity.
    + (* PEnd *)
      cbn [pnested] in Hn. destruct o; [|discriminate]. cbn [andb] in Hn.
      destruct (Ho eq_refl) as (Hne & Hns).
      unfold print in Hr, Hf. cbn [flat_map pr_call] in Hr, Hf. fold (print F fmt cs) in Hr, Hf.
      destruct b.
      * cbn [app tl] in Hr, Hf.
        destruct fuel as [|f]; [lia|]. cbn [parse_loop].
        pose proof Hr as (Hfin & _). rewrite Hfin.
        destruct (step_Z st l s _ Hr Hns) as (l' & E). rewrite E.
        pose proof (reads_adv _ _ _ Hr) as Hr'.
        match goal with |- context [parse_loop _ _ _ _ _ _ _ _ _ _ f ?st2 l' _] =>
          destruct (IH false f st2 l' (skipws (advance_one s)) Hn Hcs (skip_print _ _ Hr'))
            as (st' & E' & Hout) end.
        { cbn [length] in Hf. lia. }
        { discriminate. }
        exists st'. split; [exact E'|]. rewrite Hout. unfold fin_out.
        cbn [p_need_end p_out set_need_end set_cur out]. rewrite <- app_assoc; reflexivity.
      * cbn [app] in Hr, Hf.
        destruct (IH false fuel st l s Hn Hcs Hr Hf) as (st' & E' & Hout); [discriminate|].
        exists st'. split; [exact E'|]. rewrite Hout. unfold fin_out. rewrite Hne.
        rewrite <- app_assoc; reflexivity.
Qed.

Lemma roundtrip_main calls :
  pnested false calls = true -> Forall call_ok calls ->
  forall attr0 oracles, prun attr0 oracles (print F fmt calls) = (calls, None).
Proof.
  intros Hn Hok attr0 oracles. unfold parse.
  destruct (print_shape calls) as [E | (L & r & E & HL)].
  - assert (calls = []) as ->.
    { destruct calls as [|c cs]; [reflexivity|]. exfalso.
      unfold print in E. destruct c; cbn in Hn, E; discriminate. }
    reflexivity.
  - set (text := print F fmt calls) in *.
    assert (Hr0 : reads (source_new text) text).
    { rewrite E. cbn. auto. }
    destruct (loop_rt calls false (S (length text)) (mkP attr0 (fzero, fzero) false [])
                (mkL (fzero, fzero) true None None 77 oracles)
                (skipws (source_new text)) Hn Hok (skip_print _ _ Hr0)) as (st' & E' & Hout).
    { fold text. lia. }
    { discriminate. }
    rewrite E'. fold (fin_out st'). rewrite Hout. reflexivity.
Qed.

End Helpers.

(* the statement below is written with all arguments explicit *)
Local Arguments pnested : clear implicits.

Lemma print_parse_roundtrip :
  (forall c, 0 <= c < 128 -> is_num c = is_digit c) ->
  is_ws 32 = true -> (forall c, 33 <= c < 128 -> is_ws c = false) ->
  (forall c, stop_at = Some c -> ~ In c [77; 76; 81; 67; 90]) ->
  forall calls, pnested F false calls = true -> Forall call_ok calls ->
  forall attr0 oracles,
  parse F fzero fone fadd fsub fmul parse_f32 is_ws is_num n_attr stop_at attr0 oracles (print F fmt calls)
  = (calls, None).
Proof.
  intros Hnum Hws32 Hws Hstop calls Hn Hok attr0 oracles.
  apply roundtrip_main; assumption.
Qed.
End RoundTrip.

Print Assumptions print_parse_roundtrip.
