(* Proofs for C12: lyon_geom::Triangle::contains_point (Model/Triangle.v) is exactly strict interiority, for
   every non-degenerate triangle of either orientation; a degenerate triangle contains nothing; vertices and
   edge points are not contained; the test does not depend on the order of the vertices. *)
From Coq Require Import QArith Lia Lqa Bool.
From LV Require Import Base.Prelude Model.Bezier Model.LineInter Model.Triangle.
Open Scope Q_scope.

(* ------------------------------------------------------------ boolean tests *)
Lemma tQltb_true a b : Qltb a b = true <-> a < b.
Proof.
  unfold Qltb. rewrite negb_true_iff. split.
  - intros H. apply Qnot_le_lt. intro H1. apply Qle_bool_iff in H1. congruence.
  - intros H. destruct (Qle_bool b a) eqn:E; auto.
    apply Qle_bool_iff in E. exfalso. exact (Qlt_not_le _ _ H E).
Qed.

Lemma tQltb_false a b : Qltb a b = false <-> b <= a.
Proof. unfold Qltb. rewrite negb_false_iff. apply Qle_bool_iff. Qed.

Lemma tQltb_compat a a' b b' : a == a' -> b == b' -> Qltb a b = Qltb a' b'.
Proof.
  intros Ha Hb. apply eq_true_iff_eq. rewrite !tQltb_true. rewrite Ha, Hb. tauto.
Qed.

Lemma Qltb_0_zero x : x == 0 -> Qltb 0 x = false.
Proof. intros H. apply tQltb_false. rewrite H. apply Qle_refl. Qed.

Lemma Qdiv_1_zero d : d == 0 -> 1 / d == 0.
Proof. intros H. rewrite H. reflexivity. Qed.

(* ------------------------------------------------------------ the coordinates, named *)
Definition bary1 (t : tri) (p : qpt) : Q := fst (fst (tri_bary t p)).
Definition bary2 (t : tri) (p : qpt) : Q := snd (fst (tri_bary t p)).
Definition bary3 (t : tri) (p : qpt) : Q := snd (tri_bary t p).

Lemma tri_contains_unfold t p :
  tri_contains_point t p = Qltb 0 (bary1 t p) && Qltb 0 (bary2 t p) && Qltb 0 (bary3 t p).
Proof. reflexivity. Qed.

Lemma tri_contains_true t p :
  tri_contains_point t p = true <-> 0 < bary1 t p /\ 0 < bary2 t p /\ 0 < bary3 t p.
Proof. rewrite tri_contains_unfold, !andb_true_iff, !tQltb_true. tauto. Qed.

Ltac tri_unf :=
  unfold bary1, bary2, bary3, tri_bary, tri_det, tri_point, peq, cross, psub, padd, pscale, px, py in *;
  cbn [t_a t_b t_c fst snd] in *.

Lemma bary1_eq t p : bary1 t p == cross (psub (t_b t) (t_a t)) (psub p (t_a t)) * (1 / tri_det t).
Proof. reflexivity. Qed.
Lemma bary2_eq t p : bary2 t p == cross (psub p (t_a t)) (psub (t_c t) (t_a t)) * (1 / tri_det t).
Proof. reflexivity. Qed.
Lemma bary3_eq t p : bary3 t p == 1 - bary1 t p - bary2 t p.
Proof. reflexivity. Qed.

(* ------------------------------------------------------------ 1. what the coordinates are *)
Lemma tri_bary_spec : forall t p, ~ tri_det t == 0 ->
  let '(ga, be, al) := tri_bary t p in
  p =p= tri_point t be ga /\ al == 1 - ga - be.
Proof.
  intros [[ax ay] [bx by_] [cx cy]] [x y] Hd.
  unfold tri_bary. cbv zeta. tri_unf.
  split; [split|reflexivity]; field; exact Hd.
Qed.

Lemma tri_bary_point t p : ~ tri_det t == 0 -> p =p= tri_point t (bary2 t p) (bary1 t p).
Proof.
  intros Hd. pose proof (tri_bary_spec t p Hd) as H.
  unfold bary1, bary2. destruct (tri_bary t p) as [[ga be] al]. cbn [fst snd]. tauto.
Qed.

(* uniqueness of the representation *)
Lemma tri_bary_of_point t p beta gamma : ~ tri_det t == 0 -> p =p= tri_point t beta gamma ->
  bary1 t p == gamma /\ bary2 t p == beta.
Proof.
  destruct t as [[ax ay] [bx by_] [cx cy]]. destruct p as [x y]. intros Hd [Hx Hy].
  tri_unf. rewrite Hx, Hy. split; field; exact Hd.
Qed.

(* ------------------------------------------------------------ 2. containment = strict interiority *)
Theorem tri_contains_spec : forall t p, ~ tri_det t == 0 ->
  (tri_contains_point t p = true <-> strictly_inside t p).
Proof.
  intros t p Hd. rewrite tri_contains_true. split.
  - intros (H1 & H2 & H3). exists (bary2 t p), (bary1 t p).
    rewrite bary3_eq in H3.
    split; [exact H2|]. split; [exact H1|]. split; [lra|]. apply tri_bary_point; exact Hd.
  - intros (beta & gamma & Hb & Hg & Hs & Hp).
    destruct (tri_bary_of_point t p beta gamma Hd Hp) as [E1 E2].
    rewrite bary3_eq, E1, E2. repeat split; lra.
Qed.

(* ------------------------------------------------------------ 3. degenerate triangles *)
Theorem tri_degenerate_contains_nothing : forall t p, tri_det t == 0 -> tri_contains_point t p = false.
Proof.
  intros t p Hd. rewrite tri_contains_unfold.
  rewrite (Qltb_0_zero (bary1 t p)); [reflexivity|].
  rewrite bary1_eq, (Qdiv_1_zero _ Hd). ring.
Qed.

(* ------------------------------------------------------------ 4. strictness *)
Lemma tri_contains_false1 t p : bary1 t p == 0 -> tri_contains_point t p = false.
Proof. intros H. rewrite tri_contains_unfold, (Qltb_0_zero _ H). reflexivity. Qed.
Lemma tri_contains_false2 t p : bary2 t p == 0 -> tri_contains_point t p = false.
Proof. intros H. rewrite tri_contains_unfold, (Qltb_0_zero _ H), andb_false_r. reflexivity. Qed.
Lemma tri_contains_false3 t p : bary3 t p == 0 -> tri_contains_point t p = false.
Proof. intros H. rewrite tri_contains_unfold, (Qltb_0_zero _ H), andb_false_r. reflexivity. Qed.

Theorem tri_vertices_not_contained : forall t,
  tri_contains_point t (t_a t) = false /\ tri_contains_point t (t_b t) = false /\ tri_contains_point t (t_c t) = false.
Proof.
  intros [[ax ay] [bx by_] [cx cy]]. cbn [t_a t_b t_c]. split; [|split].
  - apply tri_contains_false1. tri_unf. ring.
  - apply tri_contains_false1. tri_unf. ring.
  - apply tri_contains_false2. tri_unf. ring.
Qed.

Theorem tri_edge_points_not_contained : forall t s, 0 <= s -> s <= 1 ->
  tri_contains_point t (tri_point t s 0) = false /\ tri_contains_point t (tri_point t 0 s) = false
  /\ tri_contains_point t (tri_point t s (1 - s)) = false.
Proof.
  intros t s _ _. split; [|split].
  - apply tri_contains_false1. destruct t as [[ax ay] [bx by_] [cx cy]]. tri_unf. ring.
  - apply tri_contains_false2. destruct t as [[ax ay] [bx by_] [cx cy]]. tri_unf. ring.
  - destruct (Qeq_dec (tri_det t) 0) as [Hd|Hd].
    + apply tri_degenerate_contains_nothing; exact Hd.
    + apply tri_contains_false3.
      destruct (tri_bary_of_point t (tri_point t s (1 - s)) s (1 - s) Hd) as [E1 E2].
      { split; reflexivity. }
      rewrite bary3_eq, E1, E2. ring.
Qed.

(* ------------------------------------------------------------ 5. order of the vertices *)
Lemma tri_det_swap a b c : tri_det (mkTri a c b) == - tri_det (mkTri a b c).
Proof. destruct a as [ax ay], b as [bx by_], c as [cx cy]. tri_unf. ring. Qed.
Lemma tri_det_rotate a b c : tri_det (mkTri b c a) == tri_det (mkTri a b c).
Proof. destruct a as [ax ay], b as [bx by_], c as [cx cy]. tri_unf. ring. Qed.

Theorem tri_contains_swap : forall a b c p,
  tri_contains_point (mkTri a c b) p = tri_contains_point (mkTri a b c) p.
Proof.
  intros a b c p. destruct (Qeq_dec (tri_det (mkTri a b c)) 0) as [Hd|Hd].
  - rewrite !tri_degenerate_contains_nothing; [reflexivity|exact Hd|].
    rewrite tri_det_swap, Hd. reflexivity.
  - assert (E1 : bary1 (mkTri a c b) p == bary2 (mkTri a b c) p).
    { destruct a as [ax ay], b as [bx by_], c as [cx cy], p as [x y]. tri_unf. field.
      repeat split; try exact Hd; intro Hz; apply Hd; lra. }
    assert (E2 : bary2 (mkTri a c b) p == bary1 (mkTri a b c) p).
    { destruct a as [ax ay], b as [bx by_], c as [cx cy], p as [x y]. tri_unf. field.
      repeat split; try exact Hd; intro Hz; apply Hd; lra. }
    assert (E3 : bary3 (mkTri a c b) p == bary3 (mkTri a b c) p).
    { rewrite !bary3_eq, E1, E2. ring. }
    rewrite !tri_contains_unfold.
    rewrite (tQltb_compat 0 0 _ _ (Qeq_refl 0) E1), (tQltb_compat 0 0 _ _ (Qeq_refl 0) E2),
            (tQltb_compat 0 0 _ _ (Qeq_refl 0) E3).
    f_equal. apply andb_comm.
Qed.

Theorem tri_contains_rotate : forall a b c p,
  tri_contains_point (mkTri b c a) p = tri_contains_point (mkTri a b c) p.
Proof.
  intros a b c p. destruct (Qeq_dec (tri_det (mkTri a b c)) 0) as [Hd|Hd].
  - rewrite !tri_degenerate_contains_nothing; [reflexivity|exact Hd|].
    rewrite tri_det_rotate, Hd. reflexivity.
  - assert (E2 : bary2 (mkTri b c a) p == bary1 (mkTri a b c) p).
    { destruct a as [ax ay], b as [bx by_], c as [cx cy], p as [x y]. tri_unf. field.
      repeat split; try exact Hd; intro Hz; apply Hd; lra. }
    assert (E3 : bary3 (mkTri b c a) p == bary2 (mkTri a b c) p).
    { destruct a as [ax ay], b as [bx by_], c as [cx cy], p as [x y]. tri_unf. field.
      repeat split; try exact Hd; intro Hz; apply Hd; lra. }
    assert (E1 : bary1 (mkTri b c a) p == bary3 (mkTri a b c) p).
    { rewrite (bary3_eq (mkTri a b c)), <- E2, <- E3, bary3_eq. ring. }
    rewrite !tri_contains_unfold.
    rewrite (tQltb_compat 0 0 _ _ (Qeq_refl 0) E1), (tQltb_compat 0 0 _ _ (Qeq_refl 0) E2),
            (tQltb_compat 0 0 _ _ (Qeq_refl 0) E3).
    destruct (Qltb 0 (bary1 (mkTri a b c) p)), (Qltb 0 (bary2 (mkTri a b c) p)),
             (Qltb 0 (bary3 (mkTri a b c) p)); reflexivity.
Qed.

(* ------------------------------------------------------------ 6. an example *)
Example tri_example :
  tri_contains_point (mkTri (0,0) (4,0) (0,4)) (1,1) = true
  /\ tri_contains_point (mkTri (0,0) (4,0) (0,4)) (2,2) = false
  /\ tri_contains_point (mkTri (0,0) (0,4) (4,0)) (1,1) = true.
Proof. vm_compute. repeat split. Qed.

Print Assumptions tri_contains_spec.
Print Assumptions tri_degenerate_contains_nothing.
Print Assumptions tri_vertices_not_contained.
Print Assumptions tri_edge_points_not_contained.
Print Assumptions tri_contains_swap.
Print Assumptions tri_contains_rotate.
