(* C04: the BuffersBuilder state machine restores the caller's buffers on abort, leaves the old
   prefix untouched on success, and only emits indices of vertices added since begin. *)
From LV Require Import Base.Prelude Model.GeomBuilder.
Open Scope Z_scope.

Section Proofs.
Variable V : Type.
Notation bb := (bb V).
Notation gcall := (gcall V).

Definition is_body_call (c : gcall) : Prop :=
  match c with GVertex _ _ _ | GTri _ _ _ _ => True | _ => False end.

(* a body (vertices and triangles only) only appends, and keeps the registers *)
Lemma run_body : forall body (b : bb), Forall is_body_call body ->
  exists X Y, bb_vertices V (fst (bb_run V b body)) = bb_vertices V b ++ X /\
              bb_indices V (fst (bb_run V b body)) = bb_indices V b ++ Y /\
              bb_first_vertex V (fst (bb_run V b body)) = bb_first_vertex V b /\
              bb_first_index V (fst (bb_run V b body)) = bb_first_index V b /\
              bb_vertex_offset V (fst (bb_run V b body)) = bb_vertex_offset V b /\
              bb_max V (fst (bb_run V b body)) = bb_max V b /\
              bb_modulus V (fst (bb_run V b body)) = bb_modulus V b.
Proof.
  induction body as [|c r IH]; intros b Hb.
  - exists [], []. cbn. rewrite !app_nil_r. repeat split; reflexivity.
  - inversion Hb as [|? ? Hc Hr]; subst.
    cbn [bb_run].
    destruct (bb_step V b c) as [b1 o1] eqn:E1.
    destruct (bb_run V b1 r) as [b2 o2] eqn:E2.
    cbn [fst].
    specialize (IH b1 Hr). rewrite E2 in IH. cbn [fst] in IH.
    destruct IH as (X & Y & H1 & H2 & H3 & H4 & H5 & H6 & H7).
    destruct c as [|v ret|x y z| |]; cbn in Hc; try contradiction.
    + unfold bb_step, bb_add_vertex in E1.
      destruct (bb_max V b <? Z.of_nat (length (bb_vertices V b ++ [v]))); inversion E1; subst b1; clear E1;
        cbn [bb_vertices bb_indices bb_first_vertex bb_first_index bb_vertex_offset bb_max bb_modulus] in *;
        exists ([v] ++ X), Y; rewrite H1, H2, app_assoc; repeat split; assumption.
    + unfold bb_step, bb_add_triangle in E1. inversion E1; subst b1; clear E1.
      cbn [bb_vertices bb_indices bb_first_vertex bb_first_index bb_vertex_offset bb_max bb_modulus] in *.
      exists X, ([to_index V b x; to_index V b y; to_index V b z] ++ Y).
      rewrite H1, H2, <- app_assoc. repeat split; assumption.
Qed.

Lemma bb_run_app : forall t1 t2 (b : bb),
  fst (bb_run V b (t1 ++ t2)) = fst (bb_run V (fst (bb_run V b t1)) t2).
Proof.
  induction t1 as [|c r IH]; intros t2 b; cbn [app bb_run].
  - reflexivity.
  - destruct (bb_step V b c) as [b1 o1].
    specialize (IH t2 b1).
    destruct (bb_run V b1 (r ++ t2)) as [b2 o2].
    destruct (bb_run V b1 r) as [b3 o3]. cbn [fst] in *. exact IH.
Qed.

(* all-or-nothing: begin, any vertices / triangles (accepted or refused), abort: the buffers are
   exactly what they were before the call - for ANY prior contents, offset and index type *)
Lemma abort_restores : forall vs is off max modulus body, Forall is_body_call body ->
  let b := fst (bb_run V (bb_new V vs is off max modulus) (GBegin V :: body ++ [GAbort V])) in
  bb_vertices V b = vs /\ bb_indices V b = is.
Proof.
  intros vs is off max modulus body Hb.
  cbn [bb_run bb_step].
  destruct (bb_run V (bb_begin V (bb_new V vs is off max modulus)) (body ++ [GAbort V])) as [b2 o2] eqn:E.
  cbn [fst].
  assert (Hb2 : b2 = fst (bb_run V (bb_begin V (bb_new V vs is off max modulus)) (body ++ [GAbort V])))
    by (rewrite E; reflexivity).
  rewrite bb_run_app in Hb2.
  destruct (run_body body (bb_begin V (bb_new V vs is off max modulus)) Hb)
    as (X & Y & H1 & H2 & H3 & H4 & _).
  set (b1 := fst (bb_run V (bb_begin V (bb_new V vs is off max modulus)) body)) in *.
  cbn [bb_run bb_step fst] in Hb2. subst b2.
  unfold bb_abort. cbn [bb_vertices bb_indices].
  rewrite H1, H2, H3, H4.
  unfold bb_begin, bb_new. cbn [bb_vertices bb_indices bb_first_vertex bb_first_index].
  rewrite !Nat2Z.id, !firstn_app, !Nat.sub_diag, !firstn_all. cbn [firstn]. rewrite !app_nil_r.
  split; reflexivity.
Qed.

(* success: the old prefix is untouched *)
Lemma success_keeps_prefix : forall vs is off max modulus body, Forall is_body_call body ->
  let b := fst (bb_run V (bb_new V vs is off max modulus) (GBegin V :: body ++ [GEnd V])) in
  firstn (length vs) (bb_vertices V b) = vs /\ firstn (length is) (bb_indices V b) = is.
Proof.
  intros vs is off max modulus body Hb.
  cbn [bb_run bb_step].
  destruct (bb_run V (bb_begin V (bb_new V vs is off max modulus)) (body ++ [GEnd V])) as [b2 o2] eqn:E.
  cbn [fst].
  assert (Hb2 : b2 = fst (bb_run V (bb_begin V (bb_new V vs is off max modulus)) (body ++ [GEnd V])))
    by (rewrite E; reflexivity).
  rewrite bb_run_app in Hb2.
  destruct (run_body body (bb_begin V (bb_new V vs is off max modulus)) Hb)
    as (X & Y & H1 & H2 & _).
  set (b1 := fst (bb_run V (bb_begin V (bb_new V vs is off max modulus)) body)) in *.
  cbn [bb_run bb_step fst] in Hb2. subst b2.
  rewrite H1, H2. unfold bb_begin, bb_new. cbn [bb_vertices bb_indices].
  rewrite !firstn_app, !Nat.sub_diag, !firstn_all. cbn [firstn]. rewrite !app_nil_r.
  split; reflexivity.
Qed.

(* an accepted vertex gets the id of its slot, which is a new slot and below MAX *)
Lemma add_vertex_id : forall (b : bb) v b' id, bb_add_vertex V b v = (b', Some id) ->
  id = Z.of_nat (length (bb_vertices V b)) /\ id < bb_max V b /\
  nth_error (bb_vertices V b') (Z.to_nat id) = Some v.
Proof.
  intros b v b' id H. unfold bb_add_vertex in H.
  destruct (bb_max V b <? Z.of_nat (length (bb_vertices V b ++ [v]))) eqn:E; inversion H; subst; clear H.
  rewrite app_length in *. cbn [length] in *.
  apply Z.ltb_ge in E.
  repeat split; try lia.
  cbn [bb_vertices].
  replace (Z.to_nat (Z.of_nat (length (bb_vertices V b) + 1) - 1)) with (length (bb_vertices V b) + 0)%nat by lia.
  rewrite nth_error_app2 by lia.
  replace (length (bb_vertices V b) + 0 - length (bb_vertices V b))%nat with 0%nat by lia. reflexivity.
Qed.

(* a refused vertex is exactly the one that makes the buffer longer than MAX *)
Lemma add_vertex_refused : forall (b : bb) v b', bb_add_vertex V b v = (b', None) ->
  bb_max V b < Z.of_nat (length (bb_vertices V b)) + 1.
Proof.
  intros b v b' H. unfold bb_add_vertex in H.
  destruct (bb_max V b <? Z.of_nat (length (bb_vertices V b ++ [v]))) eqn:E; inversion H; subst.
  apply Z.ltb_lt in E. rewrite app_length in E. cbn [length] in E. lia.
Qed.

(* the index written for an id below MAX does not wrap in the index type *)
Lemma no_index_wrap : forall (b : bb) id,
  0 <= id -> 0 <= bb_vertex_offset V b -> id + bb_vertex_offset V b < bb_modulus V b ->
  bb_modulus V b <= 4294967296 ->
  to_index V b id = id + bb_vertex_offset V b.
Proof.
  intros b id H0 H1 H2 H3. unfold to_index.
  rewrite (Z.mod_small (id + bb_vertex_offset V b) 4294967296) by lia.
  apply Z.mod_small. lia.
Qed.

(* the decidable protocol check is sound: an accepted trace is Begin, body, End|Abort *)
Lemma body_ok_shape : forall t known failed ended f,
  body_ok V known failed t = Some (ended, f) ->
  exists body, Forall is_body_call body /\
               t = body ++ [if ended then GEnd V else GAbort V].
Proof.
  induction t as [|c r IH]; intros known failed ended f H; cbn [body_ok] in H.
  - discriminate.
  - destruct c as [|v ret|x y z| |].
    + discriminate.
    + destruct ret as [id|].
      * destruct (IH _ _ _ _ H) as (body & Hb & ->).
        exists (GVertex V v (Some id) :: body). split; [constructor; [exact I|exact Hb]|reflexivity].
      * destruct (IH _ _ _ _ H) as (body & Hb & ->).
        exists (GVertex V v None :: body). split; [constructor; [exact I|exact Hb]|reflexivity].
    + destruct (existsb (Z.eqb x) known && existsb (Z.eqb y) known && existsb (Z.eqb z) known); [|discriminate].
      destruct (IH _ _ _ _ H) as (body & Hb & ->).
      exists (GTri V x y z :: body). split; [constructor; [exact I|exact Hb]|reflexivity].
    + destruct r; [|discriminate]. inversion H; subst. exists []. split; [constructor|reflexivity].
    + destruct r; [|discriminate]. inversion H; subst. exists []. split; [constructor|reflexivity].
Qed.

(* Putting it together: a trace accepted by the checker for a FAILED call leaves the buffers of
   any BuffersBuilder exactly as they were; for a successful call the old contents are a prefix. *)
Theorem checked_failure_restores : forall vs is off max modulus t,
  trace_ok V false t = true ->
  let b := fst (bb_run V (bb_new V vs is off max modulus) t) in
  bb_vertices V b = vs /\ bb_indices V b = is.
Proof.
  intros vs is off max modulus t H.
  destruct t as [|c r].
  - cbn. split; reflexivity.
  - destruct c; cbn [trace_ok] in H; try discriminate.
    destruct (body_ok V [] false r) as [[ended failed]|] eqn:E; [|discriminate].
    cbn in H. destruct ended; [discriminate|].
    destruct (body_ok_shape _ _ _ _ _ E) as (body & Hb & ->).
    apply abort_restores. exact Hb.
Qed.

Theorem checked_success_frame : forall vs is off max modulus t,
  trace_ok V true t = true ->
  let b := fst (bb_run V (bb_new V vs is off max modulus) t) in
  firstn (length vs) (bb_vertices V b) = vs /\ firstn (length is) (bb_indices V b) = is.
Proof.
  intros vs is off max modulus t H.
  destruct t as [|c r]; [cbn in H; discriminate|].
  destruct c; cbn [trace_ok] in H; try discriminate.
  destruct (body_ok V [] false r) as [[ended failed]|] eqn:E; [|discriminate].
  destruct ended; [|cbn in H; discriminate].
  destruct (body_ok_shape _ _ _ _ _ E) as (body & Hb & ->).
  apply success_keeps_prefix. exact Hb.
Qed.

(* triangles of an accepted trace only use ids returned since begin *)
Fixpoint tris_known (known : list Z) (t : list gcall) : Prop :=
  match t with
  | [] => True
  | GVertex _ _ (Some id) :: r => tris_known (id :: known) r
  | GTri _ a b c :: r => In a known /\ In b known /\ In c known /\ tris_known known r
  | _ :: r => tris_known known r
  end.

Lemma existsb_eqb_In : forall x l, existsb (Z.eqb x) l = true -> In x l.
Proof.
  intros x l H. apply existsb_exists in H. destruct H as (y & Hy & E). apply Z.eqb_eq in E. subst. exact Hy.
Qed.

Theorem checked_tris_known : forall t known failed res,
  body_ok V known failed t = Some res -> tris_known known t.
Proof.
  induction t as [|c r IH]; intros known failed res H; cbn [body_ok] in H; [discriminate|].
  destruct c as [|v ret|x y z| |]; cbn [tris_known].
  - discriminate.
  - destruct ret; eapply IH; exact H.
  - destruct (existsb (Z.eqb x) known) eqn:Ex; [|discriminate].
    destruct (existsb (Z.eqb y) known) eqn:Ey; [|discriminate].
    destruct (existsb (Z.eqb z) known) eqn:Ez; [|discriminate].
    cbn in H. repeat split; try (apply existsb_eqb_In; assumption). eapply IH; exact H.
  - destruct r; [exact I|discriminate].
  - destruct r; [exact I|discriminate].
Qed.

End Proofs.
