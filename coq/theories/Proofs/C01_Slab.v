(* Proofs for C01, part 3: the slab lift - what the checker decides at the representatives of the cells of a slab
   holds at every point of the open slab; with the line check at the event ordinates this covers the whole plane. *)
From Coq Require Import QArith Qminmax Qabs Qfield Lqa Sorted.
From LV Require Import Base.Prelude Model.Bezier Model.Winding Checker.Region Checker.Slab.
From LV Require Import Proofs.C18_Winding Proofs.C01_Region.
Open Scope Q_scope.

(* ------------------------------------------------------------------ *)
(* 1. what a point "sees" of a set of edges *)

Lemma edge_wn_transfer p q a b :
  (crossing (py p) a b <-> crossing (py q) a b) ->
  (crossing (py p) a b -> (x_at a b (py p) < px p <-> x_at a b (py q) < px q)) ->
  edge_wn p a b = edge_wn q a b.
Proof.
  intros HC HX. unfold crossing in *.
  destruct (edge_wn_cases q a b) as [(A&B&C&->)|[(A&B&C&->)|(A&B&->)]].
  - assert (Cq : (py a <= py q /\ py q < py b) \/ (py b <= py q /\ py q < py a))
      by (left; split; assumption).
    pose proof (proj2 HC Cq) as Cp.
    apply edge_wn_up.
    + destruct Cp as [[U V]|[U V]]; lra.
    + destruct Cp as [[U V]|[U V]]; lra.
    + apply (proj2 (HX Cp)). exact C.
  - assert (Cq : (py a <= py q /\ py q < py b) \/ (py b <= py q /\ py q < py a))
      by (right; split; assumption).
    pose proof (proj2 HC Cq) as Cp.
    apply edge_wn_down.
    + destruct Cp as [[U V]|[U V]]; lra.
    + destruct Cp as [[U V]|[U V]]; lra.
    + apply (proj2 (HX Cp)). exact C.
  - apply edge_wn_zero; intros (P&Q&R).
    + assert (Cp : (py a <= py p /\ py p < py b) \/ (py b <= py p /\ py p < py a))
        by (left; split; assumption).
      pose proof (proj1 HC Cp) as Cq.
      apply A. destruct Cq as [[U V]|[U V]]; [|lra].
      repeat split; try assumption. apply (proj1 (HX Cp)). exact R.
    + assert (Cp : (py a <= py p /\ py p < py b) \/ (py b <= py p /\ py p < py a))
        by (right; split; assumption).
      pose proof (proj1 HC Cp) as Cq.
      apply B. destruct Cq as [[U V]|[U V]]; [lra|].
      repeat split; try assumption. apply (proj1 (HX Cp)). exact R.
Qed.

(* [p] and [q] see the edges of [l] in the same way: same edges crossed by their horizontal lines, same crossed edges
   strictly on their left *)
Definition same_view (l : list edge) (p q : qpt) : Prop :=
  forall e, In e l ->
    (crossing (py p) (fst e) (snd e) <-> crossing (py q) (fst e) (snd e)) /\
    (crossing (py p) (fst e) (snd e) -> (ex e (py p) < px p <-> ex e (py q) < px q)).

Lemma same_view_edge l p q e :
  same_view l p q -> In e l -> edge_wn p (fst e) (snd e) = edge_wn q (fst e) (snd e).
Proof.
  intros V He. destruct (V e He) as [C X]. apply edge_wn_transfer; [exact C|exact X].
Qed.

Lemma tri_in_all es ts t e : In t ts -> In e (tri_edges t) -> In e (all_edges es ts).
Proof.
  intros Ht He. unfold all_edges. apply in_or_app. right. apply in_flat_map. exists t. split; assumption.
Qed.

Lemma same_view_tri es ts p q t :
  same_view (all_edges es ts) p q -> In t ts -> tri_contains t p = tri_contains t q.
Proof.
  intros V Ht. unfold tri_contains.
  rewrite (wn_const_list p q (tri_edges t)); [reflexivity|].
  intros e He. apply (same_view_edge (all_edges es ts)); [exact V|].
  apply (tri_in_all es ts t); assumption.
Qed.

Lemma same_view_covers es ts p q :
  same_view (all_edges es ts) p q -> covers ts p = covers ts q.
Proof.
  intro V. unfold covers. apply existsb_ext_in. intros t Ht. apply (same_view_tri es ts); assumption.
Qed.

Lemma same_view_count es ts p q :
  same_view (all_edges es ts) p q -> cover_count ts p = cover_count ts q.
Proof.
  intro V. unfold cover_count. f_equal. apply filter_ext_in.
  intros t Ht. apply (same_view_tri es ts); assumption.
Qed.

Lemma same_view_inside r es ts p q :
  same_view (all_edges es ts) p q -> inside r es p = inside r es q.
Proof.
  intro V. unfold inside. rewrite (wn_const_list p q es); [reflexivity|].
  intros e He. apply (same_view_edge (all_edges es ts)); [exact V|].
  unfold all_edges. apply in_or_app. left. exact He.
Qed.

Lemma same_view_agree r es ts p q :
  same_view (all_edges es ts) p q -> agree r es ts p = agree r es ts q.
Proof.
  intro V. unfold agree. rewrite (same_view_covers es ts p q V), (same_view_inside r es ts p q V). reflexivity.
Qed.

Lemma same_view_once es ts p q :
  same_view (all_edges es ts) p q -> at_most_once ts p = at_most_once ts q.
Proof.
  intro V. unfold at_most_once. rewrite (same_view_count es ts p q V). reflexivity.
Qed.

(* points with == coordinates *)
Lemma ex_eq e y y' : y == y' -> ex e y == ex e y'.
Proof. intro E. unfold ex, x_at. rewrite E. reflexivity. Qed.

Lemma same_view_eq l x y x' y' : x == x' -> y == y' -> same_view l (x, y) (x', y').
Proof.
  intros Ex Ey e He. cbn [px py fst snd]. unfold crossing. split.
  - split; intros [[U V]|[U V]]; [left|right|left|right]; split; lra.
  - intros _. pose proof (ex_eq e y y' Ey) as E. split; intro L; lra.
Qed.

Lemma far_eq tol2 es x y x' y' : x == x' -> y == y' -> far tol2 es (x, y) -> far tol2 es (x', y').
Proof.
  intros Ex Ey F e He. specialize (F e He).
  assert (E : dist2 (x, y) (fst e) (snd e) == dist2 (x', y') (fst e) (snd e))
    by (apply dist2_point_eq; cbn [px py fst snd]; assumption).
  lra.
Qed.

Lemma fill_ok_at_eq r tol2 es ts x y x' y' :
  x == x' -> y == y' -> fill_ok_at r tol2 es ts (x, y) -> fill_ok_at r tol2 es ts (x', y').
Proof.
  intros Ex Ey H F.
  assert (V : same_view (all_edges es ts) (x', y') (x, y))
    by (apply same_view_eq; symmetry; assumption).
  rewrite (same_view_covers es ts _ _ V), (same_view_inside r es ts _ _ V).
  apply H. apply (far_eq tol2 es x' y'); [symmetry; exact Ex | symmetry; exact Ey | exact F].
Qed.

(* a line crossed by no edge *)
Lemma no_crossing_outside r es ts p :
  (forall e, In e (all_edges es ts) -> ~ crossing (py p) (fst e) (snd e)) ->
  covers ts p = false /\ inside r es p = false.
Proof.
  intro N.
  assert (Z : forall l, (forall e, In e l -> In e (all_edges es ts)) -> wn p l = 0%Z).
  { induction l as [|e l IH]; intro Hl; [reflexivity|].
    rewrite wn_cons. rewrite IH by (intros e' He'; apply Hl; right; exact He').
    rewrite edge_wn_zero; [reflexivity| |];
      intros (P&Q&R); apply (N e (Hl e (or_introl eq_refl))); unfold crossing;
      [left|right]; split; assumption. }
  split.
  - unfold covers. apply not_true_is_false. intro H. apply existsb_exists in H.
    destruct H as (t & Ht & C). unfold tri_contains in C.
    rewrite Z in C; [discriminate|].
    intros e He. apply (tri_in_all es ts t); assumption.
  - unfold inside. rewrite Z.
    + destruct r; reflexivity.
    + intros e He. unfold all_edges. apply in_or_app. left. exact He.
Qed.

(* ------------------------------------------------------------------ *)
(* 2. affine interpolation along a non-horizontal edge; order of two edges inside a slab *)

Definition nondeg (e : edge) : Prop := ~ py (fst e) == py (snd e).

Lemma sign_interp_le d0 d1 s :
  0 <= d0 * d1 -> 0 < s -> s < 1 -> d0 + d1 <= 0 -> (1 - s) * d0 + s * d1 <= 0.
Proof.
  intros P S0 S1 H.
  assert (A0 : d0 <= 0).
  { destruct (Qlt_le_dec 0 d0) as [G|G]; [|exact G]. exfalso.
    assert (K : 0 < d0 * (- d1)) by (apply Qmult_lt_0_compat; lra). lra. }
  assert (A1 : d1 <= 0).
  { destruct (Qlt_le_dec 0 d1) as [G|G]; [|exact G]. exfalso.
    assert (K : 0 < (- d0) * d1) by (apply Qmult_lt_0_compat; lra). lra. }
  assert (B0 : 0 <= (1 - s) * (- d0)) by (apply Qmult_le_0_compat; lra).
  assert (B1 : 0 <= s * (- d1)) by (apply Qmult_le_0_compat; lra).
  lra.
Qed.

Lemma sign_interp_lt d0 d1 s :
  0 <= d0 * d1 -> 0 < s -> s < 1 -> d0 + d1 < 0 -> (1 - s) * d0 + s * d1 < 0.
Proof.
  intros P S0 S1 H.
  assert (A0 : d0 <= 0).
  { destruct (Qlt_le_dec 0 d0) as [G|G]; [|exact G]. exfalso.
    assert (K : 0 < d0 * (- d1)) by (apply Qmult_lt_0_compat; lra). lra. }
  assert (A1 : d1 <= 0).
  { destruct (Qlt_le_dec 0 d1) as [G|G]; [|exact G]. exfalso.
    assert (K : 0 < (- d0) * d1) by (apply Qmult_lt_0_compat; lra). lra. }
  destruct (Qlt_le_dec d0 0) as [G|G].
  - assert (B0 : 0 < (1 - s) * (- d0)) by (apply Qmult_lt_0_compat; lra).
    assert (B1 : 0 <= s * (- d1)) by (apply Qmult_le_0_compat; lra).
    lra.
  - assert (B0 : 0 <= (1 - s) * (- d0)) by (apply Qmult_le_0_compat; lra).
    assert (B1 : 0 < s * (- d1)) by (apply Qmult_lt_0_compat; lra).
    lra.
Qed.

Section SlabGeom.
Variables y0 y1 : Q.
Hypothesis H01 : y0 < y1.
Let ym := (y0 + y1) / 2.

Lemma spans_nondeg e : spans_slab y0 y1 e = true -> nondeg e.
Proof.
  unfold spans_slab, nondeg. intros H E.
  destruct (Qle_bool_spec (py (fst e)) y0); destruct (Qle_bool_spec y1 (py (snd e)));
  destruct (Qle_bool_spec (py (snd e)) y0); destruct (Qle_bool_spec y1 (py (fst e)));
    cbn [andb orb] in H; try discriminate; lra.
Qed.

Lemma ex_interp e y : nondeg e ->
  ex e y == (1 - (y - y0) / (y1 - y0)) * ex e y0 + (y - y0) / (y1 - y0) * ex e y1.
Proof.
  intro N. unfold nondeg in N. unfold ex, x_at. field.
  split; [intro K; apply N; lra | lra].
Qed.

Lemma ex_mid e : nondeg e -> ex e ym == (ex e y0 + ex e y1) / 2.
Proof.
  intro N. unfold nondeg in N. unfold ym, ex, x_at. field.
  intro K; apply N; lra.
Qed.

Lemma param_range y : y0 < y -> y < y1 -> 0 < (y - y0) / (y1 - y0) /\ (y - y0) / (y1 - y0) < 1.
Proof.
  intros A B. split.
  - apply Qlt_shift_div_l; lra.
  - apply Qlt_shift_div_r; lra.
Qed.

Lemma same_order_true e f :
  same_order y0 y1 e f = true <-> 0 <= (ex e y0 - ex f y0) * (ex e y1 - ex f y1).
Proof. unfold same_order. apply Qle_bool_iff. Qed.

Lemma ord_le e f y : nondeg e -> nondeg f -> same_order y0 y1 e f = true ->
  y0 < y -> y < y1 -> ex e ym <= ex f ym -> ex e y <= ex f y.
Proof.
  intros Ne Nf SO A B M. apply same_order_true in SO.
  rewrite (ex_mid e Ne), (ex_mid f Nf) in M.
  rewrite (ex_interp e y Ne), (ex_interp f y Nf).
  destruct (param_range y A B) as [S0 S1].
  set (s := (y - y0) / (y1 - y0)) in *.
  assert (D : (ex e y0 - ex f y0) + (ex e y1 - ex f y1) <= 0).
  { assert (M' : (ex e y0 + ex e y1) / 2 * 2 <= (ex f y0 + ex f y1) / 2 * 2) by lra.
    assert (E1 : (ex e y0 + ex e y1) / 2 * 2 == ex e y0 + ex e y1) by field.
    assert (E2 : (ex f y0 + ex f y1) / 2 * 2 == ex f y0 + ex f y1) by field.
    lra. }
  pose proof (sign_interp_le _ _ s SO S0 S1 D) as K. lra.
Qed.

Lemma ord_lt e f y : nondeg e -> nondeg f -> same_order y0 y1 e f = true ->
  y0 < y -> y < y1 -> ex e ym < ex f ym -> ex e y < ex f y.
Proof.
  intros Ne Nf SO A B M. apply same_order_true in SO.
  rewrite (ex_mid e Ne), (ex_mid f Nf) in M.
  rewrite (ex_interp e y Ne), (ex_interp f y Nf).
  destruct (param_range y A B) as [S0 S1].
  set (s := (y - y0) / (y1 - y0)) in *.
  assert (D : (ex e y0 - ex f y0) + (ex e y1 - ex f y1) < 0).
  { assert (M' : (ex e y0 + ex e y1) / 2 * 2 < (ex f y0 + ex f y1) / 2 * 2) by lra.
    assert (E1 : (ex e y0 + ex e y1) / 2 * 2 == ex e y0 + ex e y1) by field.
    assert (E2 : (ex f y0 + ex f y1) / 2 * 2 == ex f y0 + ex f y1) by field.
    lra. }
  pose proof (sign_interp_lt _ _ s SO S0 S1 D) as K. lra.
Qed.

Lemma ym_inside : y0 < ym /\ ym < y1.
Proof.
  unfold ym. split.
  - apply Qlt_shift_div_l; lra.
  - apply Qlt_shift_div_r; lra.
Qed.

(* strictly inside a slab without vertices, the edges crossed by a line are the spanning ones *)
Lemma crossing_spans l e y :
  no_vertex_inside y0 y1 l = true -> In e l -> y0 < y -> y < y1 ->
  (crossing y (fst e) (snd e) <-> spans_slab y0 y1 e = true).
Proof.
  intros NV He A B. unfold no_vertex_inside in NV. rewrite forallb_forall in NV.
  specialize (NV e He). apply andb_true_iff in NV. destruct NV as [N1 N2].
  unfold in_open in N1, N2. unfold crossing, spans_slab.
  destruct (Qltb_spec y0 (py (fst e))); destruct (Qltb_spec (py (fst e)) y1);
    cbn [andb negb] in N1; try discriminate;
  destruct (Qltb_spec y0 (py (snd e))); destruct (Qltb_spec (py (snd e)) y1);
    cbn [andb negb] in N2; try discriminate;
  destruct (Qle_bool_spec (py (fst e)) y0); destruct (Qle_bool_spec y1 (py (snd e)));
  destruct (Qle_bool_spec (py (snd e)) y0); destruct (Qle_bool_spec y1 (py (fst e)));
    cbn [andb orb]; split; intro HH; try reflexivity; try discriminate; try lra;
    try (destruct HH as [[U V]|[U V]]; lra);
    try (left; split; lra); try (right; split; lra).
Qed.

(* the band of a path edge contains the whole cell when it contains its four corners *)
Lemma cell_band tol2 es lo hi x y :
  nondeg lo -> nondeg hi -> y0 < y -> y < y1 -> ex lo y < x -> x <= ex hi y ->
  cell_in_band tol2 es y0 y1 lo hi = true -> ~ far tol2 es (x, y).
Proof.
  intros Nl Nh A B L H Band Far.
  unfold cell_in_band in Band. apply existsb_exists in Band.
  destruct Band as (e & He & N).
  apply andb_true_iff in N. destruct N as [N N4].
  apply andb_true_iff in N. destruct N as [N N3].
  apply andb_true_iff in N. destruct N as [N1 N2].
  destruct (param_range y A B) as [S0 S1].
  pose proof (ex_interp lo y Nl) as El. pose proof (ex_interp hi y Nh) as Eh.
  set (s := (y - y0) / (y1 - y0)) in *.
  assert (S0' : 0 <= s) by lra. assert (S1' : s <= 1) by lra.
  pose proof (band_convex tol2 (ex lo y0, y0) (ex lo y1, y1) e s S0' S1' N1 N3) as Pl.
  pose proof (band_convex tol2 (ex hi y0, y0) (ex hi y1, y1) e s S0' S1' N2 N4) as Ph.
  cbn [px py fst snd] in Pl, Ph.
  set (xl := ex lo y0 + s * (ex lo y1 - ex lo y0)) in *.
  set (xh := ex hi y0 + s * (ex hi y1 - ex hi y0)) in *.
  set (yy := y0 + s * (y1 - y0)) in *.
  assert (Xl : xl == ex lo y) by (unfold xl; rewrite El; ring).
  assert (Xh : xh == ex hi y) by (unfold xh; rewrite Eh; ring).
  assert (Yy : yy == y) by (unfold yy, s; field; lra).
  set (t := (x - xl) / (xh - xl)).
  assert (D : 0 < xh - xl) by lra.
  assert (T0 : 0 <= t) by (unfold t; apply Qle_shift_div_l; lra).
  assert (T1 : t <= 1) by (unfold t; apply Qle_shift_div_r; lra).
  pose proof (band_convex tol2 (xl, yy) (xh, yy) e t T0 T1 Pl Ph) as P.
  cbn [px py fst snd] in P. apply near_edge_true in P.
  specialize (Far e He).
  assert (E : dist2 (x, y) (fst e) (snd e) == dist2 (xl + t * (xh - xl), yy + t * (yy - yy)) (fst e) (snd e)).
  { apply dist2_point_eq; cbn [px py fst snd].
    - unfold t. field. lra.
    - rewrite <- Yy. ring. }
  rewrite E in Far. lra.
Qed.

End SlabGeom.

(* ------------------------------------------------------------------ *)
(* 3. sorting the spanning edges on the middle line *)

Definition le_at (ym : Q) (e f : edge) : Prop := ex e ym <= ex f ym.

Lemma insert_e_In ym e l z : In z (insert_e ym e l) <-> z = e \/ In z l.
Proof.
  induction l as [|h r IH]; cbn [insert_e].
  - cbn [In]. intuition.
  - destruct (Qle_bool (ex e ym) (ex h ym)); cbn [In] in *; rewrite ?IH; intuition.
Qed.

Lemma sort_e_In ym l z : In z (sort_e ym l) <-> In z l.
Proof.
  induction l as [|h r IH]; [reflexivity|].
  unfold sort_e in *. cbn [fold_right]. rewrite insert_e_In, IH. cbn [In]. intuition.
Qed.

Lemma insert_e_sorted ym e l : StronglySorted (le_at ym) l -> StronglySorted (le_at ym) (insert_e ym e l).
Proof.
  induction 1 as [|h r S IH F]; cbn [insert_e].
  - constructor; constructor.
  - destruct (Qle_bool_spec (ex e ym) (ex h ym)) as [L|L].
    + constructor; [constructor; assumption|].
      constructor; [exact L|]. eapply Forall_impl; [|exact F].
      intros z Hz. unfold le_at in *. lra.
    + constructor; [exact IH|].
      apply Forall_forall. intros z Hz. apply insert_e_In in Hz. destruct Hz as [->|Hz].
      * unfold le_at. lra.
      * rewrite Forall_forall in F. apply F. exact Hz.
Qed.

Lemma sort_e_sorted ym l : StronglySorted (le_at ym) (sort_e ym l).
Proof.
  induction l as [|h r IH]; [constructor|].
  unfold sort_e in *. cbn [fold_right]. apply insert_e_sorted. exact IH.
Qed.

Lemma last_cons_gen {A} (h : A) l d : last (h :: l) d = last l h.
Proof.
  revert h d. induction l as [|k l IH]; intros h d; [reflexivity|].
  change (last (h :: k :: l) d) with (last (k :: l) d). rewrite (IH k d), (IH k h). reflexivity.
Qed.

(* ------------------------------------------------------------------ *)
(* 4. the cells of a slab: soundness of [check_slab_gen] for any verdict that only depends on the view *)

Section Gen.
Variable good : qpt -> bool.
Variable tol2 : Q.
Variable es : list edge.
Variable ts : list triangle.
Variables y0 y1 : Q.
Hypothesis good_inv : forall p q, same_view (all_edges es ts) p q -> good q = true -> good p = true.
Hypothesis H01 : y0 < y1.
Hypothesis NV : no_vertex_inside y0 y1 (all_edges es ts) = true.
Variable S : list edge.
Hypothesis S_spec : forall e, In e S <-> In e (all_edges es ts) /\ spans_slab y0 y1 e = true.
Hypothesis S_ord : forall e f, In e S -> In f S -> same_order y0 y1 e f = true.
Variables x y : Q.
Hypothesis A : y0 < y.
Hypothesis B : y < y1.
Local Notation ym := ((y0 + y1) / 2).

Lemma S_nondeg e : In e S -> nondeg e.
Proof. intro He. apply S_spec in He. destruct He as [_ Sp]. apply (spans_nondeg y0 y1 H01 e Sp). Qed.

Lemma S_le e f : In e S -> In f S -> ex e ym <= ex f ym -> ex e y <= ex f y.
Proof.
  intros He Hf. apply (ord_le y0 y1 H01 e f y); try assumption.
  - apply S_nondeg; exact He.
  - apply S_nondeg; exact Hf.
  - apply S_ord; assumption.
Qed.

Lemma S_lt e f : In e S -> In f S -> ex e ym < ex f ym -> ex e y < ex f y.
Proof.
  intros He Hf. apply (ord_lt y0 y1 H01 e f y); try assumption.
  - apply S_nondeg; exact He.
  - apply S_nondeg; exact Hf.
  - apply S_ord; assumption.
Qed.

Lemma view_of_cmp xm :
  (forall e, In e S -> (ex e y < x <-> ex e ym < xm)) ->
  same_view (all_edges es ts) (x, y) (xm, ym).
Proof.
  intros H e He. cbn [px py fst snd].
  destruct (ym_inside y0 y1 H01) as [M0 M1].
  pose proof (crossing_spans y0 y1 _ e y NV He A B) as C1.
  pose proof (crossing_spans y0 y1 _ e ym NV He M0 M1) as C2.
  split.
  - rewrite C1, C2. reflexivity.
  - intro C. apply H. apply S_spec. split; [exact He|]. apply C1. exact C.
Qed.

Definition cell_goal : Prop := good (x, y) = true \/ ~ far tol2 es (x, y).

Lemma good_by_view xm :
  (forall e, In e S -> (ex e y < x <-> ex e ym < xm)) -> good (xm, ym) = true -> cell_goal.
Proof.
  intros H G. left. apply (good_inv (x, y) (xm, ym)); [|exact G]. apply view_of_cmp. exact H.
Qed.

Lemma scan_ok r : forall lo,
  In lo S -> (forall e, In e r -> In e S) ->
  (forall e, In e S -> ex e ym <= ex lo ym \/ In e r) ->
  StronglySorted (le_at ym) (lo :: r) ->
  scan_cells good tol2 es y0 y1 ym lo r = true ->
  good (ex (last r lo) ym + 1, ym) = true ->
  ex lo y < x -> cell_goal.
Proof.
  induction r as [|hi r IH]; intros lo Hlo Hr Pre St Sc Bey L.
  - cbn [last] in Bey. apply (good_by_view (ex lo ym + 1)); [|exact Bey].
    intros e He. destruct (Pre e He) as [K|[]].
    pose proof (S_le e lo He Hlo K) as K'. split; intros _; lra.
  - cbn [scan_cells] in Sc. apply andb_true_iff in Sc. destruct Sc as [Sc1 Sc2].
    inversion St as [|? ? St' Fl]; subst.
    inversion Fl as [|? ? Llh Fl']; subst. unfold le_at in Llh.
    assert (Hhi : In hi S) by (apply Hr; left; reflexivity).
    destruct (Qlt_le_dec (ex hi y) x) as [G|G].
    + apply (IH hi); try assumption.
      * intros e He. apply Hr. right. exact He.
      * intros e He. destruct (Pre e He) as [K|[<-|K]].
        -- left. lra.
        -- left. apply Qle_refl.
        -- right. exact K.
      * rewrite last_cons_gen in Bey. exact Bey.
    + assert (Lt : ex lo ym < ex hi ym).
      { destruct (Qlt_le_dec (ex lo ym) (ex hi ym)) as [K|K]; [exact K|]. exfalso.
        pose proof (S_le hi lo Hhi Hlo K) as K'. lra. }
      assert (View : forall e, In e S -> (ex e y < x <-> ex e ym < ex hi ym)).
      { intros e He. destruct (Pre e He) as [K|K].
        - pose proof (S_le e lo He Hlo K) as K'. split; intros _; lra.
        - assert (K' : ex hi ym <= ex e ym).
          { destruct K as [<-|K]; [apply Qle_refl|].
            inversion St' as [|? ? _ Fh]; subst. rewrite Forall_forall in Fh. apply Fh. exact K. }
          pose proof (S_le hi e Hhi He K') as K''. split; intro; lra. }
      apply orb_true_iff in Sc1. destruct Sc1 as [Sc1|Band].
      * apply orb_true_iff in Sc1. destruct Sc1 as [Tie|Gd].
        -- apply Qeq_bool_iff in Tie. lra.
        -- apply (good_by_view (ex hi ym)); assumption.
      * right. apply (cell_band y0 y1 H01 tol2 es lo hi x y); try assumption.
        -- apply S_nondeg; exact Hlo.
        -- apply S_nondeg; exact Hhi.
Qed.

End Gen.

Lemma cells_ok good tol2 es ts y0 y1 S x y :
  (forall p q, same_view (all_edges es ts) p q -> good q = true -> good p = true) ->
  y0 < y1 ->
  no_vertex_inside y0 y1 (all_edges es ts) = true ->
  (forall e, In e S <-> In e (all_edges es ts) /\ spans_slab y0 y1 e = true) ->
  (forall e f, In e S -> In f S -> same_order y0 y1 e f = true) ->
  y0 < y -> y < y1 ->
  StronglySorted (le_at ((y0 + y1) / 2)) S ->
  match S with
  | [] => good (0, (y0 + y1) / 2)
  | first :: r => good (ex first ((y0 + y1) / 2), (y0 + y1) / 2)
                  && scan_cells good tol2 es y0 y1 ((y0 + y1) / 2) first r
                  && good (ex (last r first) ((y0 + y1) / 2) + 1, (y0 + y1) / 2)
  end = true ->
  cell_goal good tol2 es x y.
Proof.
  intros GI H01 NV Sspec Sord A B St H.
  pose proof (good_by_view good tol2 es ts y0 y1 GI H01 NV S Sspec x y A B) as GV.
  pose proof (scan_ok good tol2 es ts y0 y1 GI H01 NV S Sspec Sord x y A B) as SO.
  pose proof (S_le es ts y0 y1 H01 S Sspec Sord y A B) as SL.
  destruct S as [|first r].
  - apply (GV 0); [|exact H]. intros e [].
  - apply andb_true_iff in H. destruct H as [H H3].
    apply andb_true_iff in H. destruct H as [H1 H2].
    assert (Hf : In first (first :: r)) by (left; reflexivity).
    destruct (Qlt_le_dec (ex first y) x) as [G|G].
    + apply (SO r first); try assumption.
      * intros e He. right. exact He.
      * intros e [<-|He]; [left; apply Qle_refl | right; exact He].
    + apply (GV (ex first ((y0 + y1) / 2))); [|exact H1].
      intros e He.
      assert (K : ex first ((y0 + y1) / 2) <= ex e ((y0 + y1) / 2)).
      { destruct He as [<-|He]; [apply Qle_refl|].
        inversion St as [|? ? _ Fh]; subst. rewrite Forall_forall in Fh. apply Fh. exact He. }
      pose proof (SL first e Hf He K) as K'. split; intro; lra.
Qed.

Theorem slab_gen_sound good tol2 es ts y0 y1 :
  (forall p q, same_view (all_edges es ts) p q -> good q = true -> good p = true) ->
  check_slab_gen good tol2 es ts y0 y1 = true ->
  forall x y, y0 < y -> y < y1 -> good (x, y) = true \/ ~ far tol2 es (x, y).
Proof.
  intros GI H x y A B. unfold check_slab_gen in H. cbv zeta in H.
  apply andb_true_iff in H. destruct H as [H CC].
  apply andb_true_iff in H. destruct H as [H OC].
  apply andb_true_iff in H. destruct H as [H01 NV].
  apply Qltb_true in H01.
  set (s := filter (spans_slab y0 y1) (all_edges es ts)) in *.
  set (S := sort_e ((y0 + y1) / 2) s).
  assert (Sspec : forall e, In e S <-> In e (all_edges es ts) /\ spans_slab y0 y1 e = true).
  { intro e. unfold S. rewrite sort_e_In. unfold s. apply filter_In. }
  assert (Sord : forall e f, In e S -> In f S -> same_order y0 y1 e f = true).
  { intros e f He Hf. unfold S in He, Hf. rewrite sort_e_In in He, Hf.
    unfold order_consistent in OC. rewrite forallb_forall in OC.
    specialize (OC e He). rewrite forallb_forall in OC. apply OC. exact Hf. }
  apply (cells_ok good tol2 es ts y0 y1 S x y); try assumption.
  apply sort_e_sorted.
Qed.

(* ------------------------------------------------------------------ *)
(* 5. the two instances *)

Theorem slab_sound : forall r tol2 es ts y0 y1,
  check_slab r tol2 es ts y0 y1 = true ->
  forall x y, y0 < y -> y < y1 -> fill_ok_at r tol2 es ts (x, y).
Proof.
  intros r tol2 es ts y0 y1 H x y A B. unfold check_slab in H.
  destruct (slab_gen_sound (agree r es ts) tol2 es ts y0 y1) with (x := x) (y := y) as [G|G];
    try assumption.
  - intros p q V Gq. rewrite (same_view_agree r es ts p q V). exact Gq.
  - intros _. apply agree_true. exact G.
  - intro F. destruct (G F).
Qed.

Theorem slab_overlap_sound : forall tol2 es ts y0 y1,
  check_slab_overlap tol2 es ts y0 y1 = true ->
  forall x y, y0 < y -> y < y1 -> far tol2 es (x, y) -> (cover_count ts (x, y) <= 1)%nat.
Proof.
  intros tol2 es ts y0 y1 H x y A B F. unfold check_slab_overlap in H.
  destruct (slab_gen_sound (at_most_once ts) tol2 es ts y0 y1) with (x := x) (y := y) as [G|G];
    try assumption.
  - intros p q V Gq. rewrite (same_view_once es ts p q V). exact Gq.
  - unfold at_most_once in G. apply Nat.leb_le. exact G.
  - destruct (G F).
Qed.

(* ------------------------------------------------------------------ *)
(* 6. the whole plane *)

Lemma sorted_strict_bounds ys : forall a, sorted_strict (a :: ys) = true ->
  forall v, In v (a :: ys) -> a <= v /\ v <= last ys a.
Proof.
  induction ys as [|b r IH]; intros a St v Hv.
  - destruct Hv as [<-|[]]. cbn [last]. split; apply Qle_refl.
  - change (sorted_strict (a :: b :: r)) with (Qltb a b && sorted_strict (b :: r)) in St.
    apply andb_true_iff in St. destruct St as [Lab St]. apply Qltb_true in Lab.
    rewrite last_cons_gen.
    destruct Hv as [<-|Hv].
    + destruct (IH b St b (or_introl eq_refl)) as [_ K]. split; lra.
    + destruct (IH b St v Hv) as [K1 K2]. split; lra.
Qed.

Lemma covers_vertices_spec ys l e :
  covers_vertices ys l = true -> In e l ->
  (exists v, In v ys /\ py (fst e) == v) /\ (exists v, In v ys /\ py (snd e) == v).
Proof.
  intros CV He. unfold covers_vertices in CV. rewrite forallb_forall in CV.
  specialize (CV e He). apply andb_true_iff in CV. destruct CV as [C1 C2].
  apply existsb_exists in C1. apply existsb_exists in C2.
  destruct C1 as (v1 & I1 & E1). destruct C2 as (v2 & I2 & E2).
  apply Qeq_bool_iff in E1. apply Qeq_bool_iff in E2.
  split; [exists v1 | exists v2]; split; assumption.
Qed.

Lemma outside_ok r tol2 es ts p :
  (forall e, In e (all_edges es ts) -> ~ crossing (py p) (fst e) (snd e)) ->
  fill_ok_at r tol2 es ts p.
Proof.
  intros N _. destruct (no_crossing_outside r es ts p N) as [C I]. rewrite C, I. reflexivity.
Qed.

Section Plane.
Variables (r : fill_rule) (tol2 : Q) (es : list edge) (ts : list triangle).

Lemma plane_mid ys : forall a,
  sorted_strict (a :: ys) = true ->
  (forall v, In v (a :: ys) -> forall x, fill_ok_at r tol2 es ts (x, v)) ->
  slabs_ok (check_slab r tol2 es ts) (a :: ys) = true ->
  forall x y, a <= y -> y <= last ys a -> fill_ok_at r tol2 es ts (x, y).
Proof.
  induction ys as [|b rest IH]; intros a St Ln Sl x y Ha Hl.
  - cbn [last] in Hl. apply (fill_ok_at_eq r tol2 es ts x a x y); [reflexivity | lra |].
    apply Ln. left. reflexivity.
  - change (sorted_strict (a :: b :: rest)) with (Qltb a b && sorted_strict (b :: rest)) in St.
    apply andb_true_iff in St. destruct St as [Lab St]. apply Qltb_true in Lab.
    change (slabs_ok (check_slab r tol2 es ts) (a :: b :: rest))
      with (check_slab r tol2 es ts a b && slabs_ok (check_slab r tol2 es ts) (b :: rest)) in Sl.
    apply andb_true_iff in Sl. destruct Sl as [Sab Sl].
    rewrite last_cons_gen in Hl.
    destruct (Qlt_le_dec y b) as [G|G].
    + destruct (Qlt_le_dec a y) as [G'|G'].
      * apply (slab_sound r tol2 es ts a b Sab x y G' G).
      * apply (fill_ok_at_eq r tol2 es ts x a x y); [reflexivity | lra |].
        apply Ln. left. reflexivity.
    + apply (IH b); try assumption.
      intros v Hv. apply Ln. right. exact Hv.
Qed.

End Plane.

Theorem plane_sound : forall r tol2 es ts ys, 0 <= tol2 ->
  check_plane r tol2 es ts ys = true ->
  forall p, fill_ok_at r tol2 es ts p.
Proof.
  intros r tol2 es ts ys Htol H [x y]. unfold check_plane in H.
  apply andb_true_iff in H. destruct H as [H Sl].
  apply andb_true_iff in H. destruct H as [H Ln].
  apply andb_true_iff in H. destruct H as [St CV].
  destruct ys as [|a ys].
  - apply outside_ok. intros e He _.
    destruct (covers_vertices_spec [] _ e CV He) as [(v & [] & _) _].
  - assert (Lines : forall v, In v (a :: ys) -> forall x', fill_ok_at r tol2 es ts (x', v)).
    { intros v Hv x'. rewrite forallb_forall in Ln. specialize (Ln v Hv).
      apply (line_sound r tol2 es ts v Htol).
      destruct (check_line r tol2 es ts v); [reflexivity|discriminate]. }
    pose proof (sorted_strict_bounds ys a St) as Bd.
    destruct (Qlt_le_dec y a) as [G|G]; [|destruct (Qlt_le_dec (last ys a) y) as [G'|G']].
    + apply outside_ok. cbn [py snd]. intros e He C.
      destruct (covers_vertices_spec _ _ e CV He) as [(v1 & I1 & E1) (v2 & I2 & E2)].
      destruct (Bd v1 I1) as [K1 _]. destruct (Bd v2 I2) as [K2 _].
      unfold crossing in C. destruct C as [[U V]|[U V]]; lra.
    + apply outside_ok. cbn [py snd]. intros e He C.
      destruct (covers_vertices_spec _ _ e CV He) as [(v1 & I1 & E1) (v2 & I2 & E2)].
      destruct (Bd v1 I1) as [_ K1]. destruct (Bd v2 I2) as [_ K2].
      unfold crossing in C. destruct C as [[U V]|[U V]]; lra.
    + apply (plane_mid r tol2 es ts ys a); assumption.
Qed.

Print Assumptions slab_sound.
Print Assumptions slab_overlap_sound.
Print Assumptions plane_sound.
