(* A remark on the hypothesis [sqrt_ok] of the cubic theorems of Props/C11.v:
   over Q it is unsatisfiable (it asks for a rational square root of every non-negative
   rational, in particular of 2), so the theorems that assume it are vacuous as stated.
   The proofs in C11_Cubic / C11_CubicRange therefore go through the weaker, satisfiable
   hypothesis [sqrt_ok_at sq disc] (the oracle is right at the one discriminant the code
   passes to it); the [*_at] lemmas are the ones with content. *)
From Coq Require Import QArith ZArith Lia Wf_Z.
From LV Require Import Base.Prelude Model.Bezier Proofs.C11_Cubic.
Open Scope Z_scope.

Lemma sqrt2_irrational_Z : forall q, 0 <= q -> forall p, 0 <= p -> 0 < q -> p * p = 2 * q * q -> False.
Proof.
  intros q Hq. pattern q. apply Z_lt_induction; auto. clear q Hq.
  intros q IH p Hp Hq E.
  destruct (Z.Even_or_Odd p) as [[k Hk]|[k Hk]]; subst p.
  - assert (Hk0 : 0 <= k) by lia.
    assert (E' : q * q = 2 * k * k) by lia.
    assert (Hkq : k < q) by nia.
    assert (Hkpos : 0 < k) by nia.
    apply (IH k (conj Hk0 Hkq) q); lia.
  - lia.
Qed.

Open Scope Q_scope.

Lemma no_rational_sqrt2 : forall x : Q, ~ x * x == 2.
Proof.
  intros [n d] H. unfold Qeq in H. cbn in H.
  apply (sqrt2_irrational_Z (Z.pos d) ltac:(lia) (Z.abs n) (Z.abs_nonneg n) ltac:(lia)).
  rewrite Z.abs_square. rewrite Pos2Z.inj_mul in H. lia.
Qed.

Lemma sqrt_ok_unsatisfiable : forall sq, ~ sqrt_ok sq.
Proof.
  intros sq H. destruct (H 2) as [_ E]; [discriminate|]. exact (no_rational_sqrt2 _ E).
Qed.

(* whereas the pointwise hypothesis is satisfiable, e.g. on perfect-square discriminants *)
Lemma sqrt_ok_at_example : sqrt_ok_at (fun _ => 12) 144.
Proof. intros _. split; [discriminate | reflexivity]. Qed.
