(* Correspondence runner for C06: per recorded stroke, the must polygons (computed by the harness from the
   input polyline, strictly inside the ideal band), the path segments (plus its points as degenerate
   segments), the triangles as emitted, and the squared allowed reach. *)
From Coq Require Import QArith.
From LV Require Import Base.Prelude Model.Bezier Model.Winding Checker.Region Checker.StrokeCover Checker.Slab Checker.CoverPlane.
Open Scope Q_scope.

Record c06_case := mkCC { cc_id : Z; cc_must : list polygon; cc_segs : list edge; cc_tris : list triangle; cc_r2 : Q }.

(* result per case: (id, number of uncovered must points found on the scanned lines, number of triangles
   reaching too far) for the cases where either is not zero *)
Definition bad_cases (cs : list c06_case) : list (Z * Z * Z) :=
  flat_map (fun c =>
    let inner := Z.of_nat (length (check_sub 12 (cc_must c) (cc_tris c))) in
    let outer := Z.of_nat (length (all_within (cc_r2 c) (cc_segs c) (cc_tris c))) in
    if (inner =? 0)%Z && (outer =? 0)%Z then [] else [(cc_id c, inner, outer)]) cs.

(* whole-plane decision (Checker/CoverPlane.v, C06_plane_sub_sound): the ids of the cases for which "every point of
   every must polygon is covered" could NOT be established at every point of the plane (never an alarm by itself:
   uncovered must points are reported by the line check above); every case not listed has it everywhere *)
Definition plane_sub_undecided (cs : list c06_case) : list Z :=
  flat_map (fun c =>
    if check_plane_sub (cc_must c) (cc_tris c) (event_ys (concat (cc_must c)) (cc_tris c)) then [] else [cc_id c]) cs.
