(* Correspondence runner for C05: every recorded stroke (vertices with the values their accessors
   returned, triangles) is decided by the exact oracle Checker/StrokeSpec.mesh_ok; add_edge_triangles
   is compared with the code (hook) on id / fold combinations. *)
From Coq Require Import QArith.
From LV Require Import Base.Prelude Model.Bezier Checker.StrokeSpec.
Open Scope Q_scope.

Inductive c05_case :=
| SC (id : Z) (segs : list seg) (vs : list svert) (ts : list (Z * Z * Z)) (allowed2 : Q)
| EC (id : Z) (p0 p1 : ep_ids) (got : list (Z * Z * Z)).
Definition mkSC := SC.
Definition mkEC := EC.

Definition tri_eqb (a b : Z * Z * Z) : bool :=
  let '(a1, a2, a3) := a in let '(b1, b2, b3) := b in (a1 =? b1)%Z && (a2 =? b2)%Z && (a3 =? b3)%Z.

Definition bad_cases (cs : list c05_case) : list Z :=
  flat_map (fun c => match c with
                     | SC id segs vs ts allowed2 => if mesh_ok segs allowed2 vs ts then [] else [id]
                     | EC id p0 p1 got => if list_eqb tri_eqb (add_edge_triangles p0 p1) got then [] else [id]
                     end) cs.
