(* Validation runner for the fill properties (C01, C02 system level, C03, C06): the polygonal outline
   and the triangles the real tessellator produced, decided by the region comparator. *)
From Coq Require Import QArith.
From LV Require Import Base.Prelude Model.Bezier Model.Winding Checker.Region Checker.Slab.
Open Scope Q_scope.

Record rcase := mkRC {
  rc_id : Z; rc_rule : Z;            (* 0 = EvenOdd, 1 = NonZero *)
  rc_tol2 : Q;                       (* squared tolerance band *)
  rc_edges : list edge; rc_tris : list triangle }.

Definition rule_of (z : Z) : fill_rule := if (z =? 0)%Z then EvenOdd else NonZero.

Definition qz (q : Q) : Z * Z := (Qnum (Qred q), Zpos (Qden (Qred q))).

(* per case: number of intervals that could not be accepted, and the first witness point if any
   (as numerator/denominator pairs); nothing is printed for a case that is entirely fine *)
Definition coverage_cases (cs : list rcase) : list (Z * Z * list ((Z * Z) * (Z * Z))) :=
  flat_map (fun c =>
    let res := check_region (rule_of (rc_rule c)) (rc_tol2 c) (rc_edges c) (rc_tris c) in
    match res with
    | [] => []
    | _ =>
        let wits := flat_map (fun r => match snd r with Some p => [(qz (px p), qz (py p))] | None => [] end) res in
        [(rc_id c, Z.of_nat (length res), firstn 1 wits)]
    end) cs.

(* the same machinery with "exactly once" instead of "at least once" (C02): points of the scanned
   lines, far from the outline, covered by more than one triangle *)
Definition overlap_at (ts : list triangle) (p : qpt) : bool := Nat.ltb 1 (cover_count ts p).
Definition overlaps_on_line (tol2 : Q) (es : list edge) (ts : list triangle) (y : Q) : list qpt :=
  let xs := sort_q (breakpoints y es ts) in
  filter (fun p => overlap_at ts p && farb tol2 es p)
         (flat_map (fun ab => [(snd ab, y); ((fst ab + snd ab) / 2, y)])
                   (combine xs (tl xs))).
Definition overlap_cases (cs : list rcase) : list (Z * list ((Z * Z) * (Z * Z))) :=
  flat_map (fun c =>
    let ps := flat_map (overlaps_on_line (rc_tol2 c) (rc_edges c) (rc_tris c)) (scan_ys (rc_edges c) (rc_tris c)) in
    match ps with [] => [] | p :: _ => [(rc_id c, [(qz (px p), qz (py p))])] end) cs.

Definition bad_cases := coverage_cases.
(* C02: (id, -1, the doubly covered point) *)
Definition overlap_bad_cases (cs : list rcase) : list (Z * Z * list ((Z * Z) * (Z * Z))) :=
  map (fun r => (fst r, (-1)%Z, snd r)) (overlap_cases cs).

(* ---- the whole plane (Checker/Slab.v, C01_plane_sound): for the small cases handed over, lines at every event
   ordinate (vertex and crossing ordinates, computed exactly here) and slabs between them.  The result lists the
   cases that could NOT be decided on the whole plane (never an alarm: violations are reported by the line check);
   every case not listed has the property at every point of the plane. *)
Definition plane_undecided (cs : list rcase) : list Z :=
  flat_map (fun c =>
    if check_plane (rule_of (rc_rule c)) (rc_tol2 c) (rc_edges c) (rc_tris c) (event_ys (rc_edges c) (rc_tris c))
    then [] else [rc_id c]) cs.

(* "covered at most once" at every point strictly between event ordinates (C01_slab_overlap_sound) *)
Definition plane_overlap_undecided (cs : list rcase) : list Z :=
  flat_map (fun c =>
    let ys := event_ys (rc_edges c) (rc_tris c) in
    if sorted_strict ys && covers_vertices ys (all_edges (rc_edges c) (rc_tris c))
       && slabs_ok (check_slab_overlap (rc_tol2 c) (rc_edges c) (rc_tris c)) ys
    then [] else [rc_id c]) cs.
