(* Correspondence / validation runner for C04: recorded geometry-builder call traces with the
   buffers before and after.  [trace_ok] is the Coq-verified protocol checker; the BuffersBuilder
   model replays the trace and must end with the reported buffers. *)
From LV Require Import Base.Prelude Model.GeomBuilder.
Open Scope Z_scope.

Record gcase := mkGC {
  gc_id : Z; gc_ok : bool; gc_modulus : Z; gc_max : Z;
  gc_pre_v : Z; gc_pre_i : list Z;
  gc_trace : list (gcall Z);
  gc_post_v : Z; gc_post_i : list Z }.

(* ids the trace says were returned *)
Definition trace_rets (t : list (gcall Z)) : list (option Z) :=
  flat_map (fun c => match c with GVertex _ _ r => [r] | _ => [] end) t.

Definition oz_eqb (a b : option Z) : bool :=
  match a, b with Some x, Some y => x =? y | None, None => true | _, _ => false end.

(* 1 = protocol violated, 2 = model buffers differ from the real ones, 3 = returned ids differ
   (only meaningful when no fault was injected: an injected refusal is not the model's) *)
Definition check (c : gcase) : list Z :=
  let b0 := bb_new Z (repeat 0 (Z.to_nat (gc_pre_v c))) (gc_pre_i c) 0 (gc_max c) (gc_modulus c) in
  let '(b, rets) := bb_run Z b0 (gc_trace c) in
  (if trace_ok Z (gc_ok c) (gc_trace c) then [] else [1]) ++
  (* an injected refusal (recorder returned Err without forwarding) leaves one vertex fewer in the
     real buffers than in the model (which pushes before refusing); both are truncated by abort,
     so the final buffers agree whenever the protocol holds *)
  (if (Z.of_nat (length (bb_vertices Z b)) =? gc_post_v c) && list_eqb Z.eqb (bb_indices Z b) (gc_post_i c)
   then [] else
     if existsb (fun r => match r with None => true | _ => false end) (trace_rets (gc_trace c)) && gc_ok c
     then [] else [2]).

Definition bad_cases (cs : list gcase) : list (Z * list Z) :=
  flat_map (fun c => match check c with [] => [] | d => [(gc_id c, d)] end) cs.
