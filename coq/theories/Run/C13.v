(* Correspondence runner for C13: SVG arcs converted by Arc::from_svg_arc (f64); the model recomputes
   centre and radii over Q from the recorded oracle values (cos, sin of the rotation as the f64
   values the code used, square roots as computed in f64) and compares within a relative 1e-9. *)
From Coq Require Import QArith Qabs.
From LV Require Import Base.Prelude Model.Bezier Model.Arc.
Open Scope Q_scope.

Record arc_case := mkArc {
  ar_id : Z; ar_arc : svg_arc; ar_cos : Q; ar_sin : Q;
  ar_sqrt_rf : Q; ar_sqrt_coe : Q;              (* oracle answers *)
  ar_center : qpt; ar_rx : Q; ar_ry : Q;        (* what the implementation returned *)
  ar_start_v : qpt; ar_end_v : qpt }.           (* (cos, sin) of start and end angles it returned *)

Definition close (scale a b : Q) : bool := Qle_bool (Qabs (a - b) * 1000000000) scale.

Definition check (c : arc_case) : bool :=
  let rf := radii_factor (ar_cos c) (ar_sin c) (ar_arc c) in
  (* the oracle: sq rf = recorded sqrt(rf); any other argument = recorded sqrt of the coefficient *)
  let sq x := if Qeq_bool x rf then ar_sqrt_rf c else ar_sqrt_coe c in
  let cf := from_svg_arc (ar_cos c) (ar_sin c) sq (ar_arc c) in
  let scale := 1 + Qabs (px (ar_center c)) + Qabs (py (ar_center c)) + ar_rx c + ar_ry c in
  close scale (px (cf_center cf)) (px (ar_center c)) && close scale (py (cf_center cf)) (py (ar_center c))
  && close scale (cf_rx cf) (ar_rx c) && close scale (cf_ry cf) (ar_ry c)
  && close 1 (px (cf_start_v cf)) (px (ar_start_v c)) && close 1 (py (cf_start_v cf)) (py (ar_start_v c))
  && close 1 (px (cf_end_v cf)) (px (ar_end_v c)) && close 1 (py (cf_end_v cf)) (py (ar_end_v c)).

Definition bad_cases (cs : list arc_case) : list Z :=
  flat_map (fun c => if check c then [] else [ar_id c]) cs.
