(* Correspondence runner for C07.  Per recorded fill vertex: the sources it reported (resolved by the
   harness to endpoint positions / edge geometry / endpoint attributes from the INPUT path), the
   position and the attributes interpolated_attributes() returned.  The model recomputes the
   attributes with f32 rounding (bit-exact) and decides exactly whether every endpoint source has the
   vertex's position and every LINE edge source's parameter gives the vertex position within the slack.
   (Curve sources are decided by the harness, which knows the known-finding class K11.) *)
From Coq Require Import QArith.
From LV Require Import Base.Prelude Base.F32 Model.Bezier Model.Sources.
Open Scope Q_scope.

Record vcase := mkV { v_id : Z; v_pos : qpt; v_srcs : list src; v_attrs : list Q; v_slack2 : Q }.
(* remap_t_in_range(val, s..e) = got (through the lyon_verif hook) *)
Inductive c07_case := VC (c : vcase) | RC (id : Z) (val s e got : Q).
Definition mkVc id pos srcs attrs slack2 := VC (mkV id pos srcs attrs slack2).
Definition mkR := RC.

Definition is_curve (s : src) : bool := match s with SQuad _ _ _ _ _ _ | SCubic _ _ _ _ _ _ _ => true | _ => false end.

Definition check (c : vcase) : bool :=
  negb (match v_srcs c with [] => true | _ => false end)
  && forallb (fun s => is_curve s || src_sound (v_slack2 c) (v_pos c) s) (v_srcs c)
  && match interp f32_round (v_srcs c) with
     | Some a => list_eqb Qeq_bool a (v_attrs c)
     | None => false
     end.

Definition bad_cases (cs : list c07_case) : list Z :=
  flat_map (fun c => match c with
                     | VC v => if check v then [] else [v_id v]
                     | RC id val s e got => if Qeq_bool (remap_f32 val s e) got then [] else [id]
                     end) cs.
