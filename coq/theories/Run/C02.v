(* Correspondence runner for C02: begin/vertex*/end sequences fed to the real monotone
   tessellators (through the lyon_verif hook) with the triangles they emitted. *)
From Coq Require Import QArith.
From LV Require Import Base.Prelude Base.F32 Model.Bezier Model.Monotone.
Open Scope Q_scope.

Record mcase := mkM {
  mc_id : Z; mc_adv : bool;
  mc_first : qpt * Z; mc_verts : list (qpt * Z * bool); mc_last : qpt * Z;
  mc_tris : list (Z * Z * Z) }.

Definition tri_eqb (a b : Z * Z * Z) : bool :=
  let '(a1, a2, a3) := a in let '(b1, b2, b3) := b in
  (a1 =? b1)%Z && (a2 =? b2)%Z && (a3 =? b3)%Z.

Definition model_tris (c : mcase) : list (Z * Z * Z) :=
  if mc_adv c then adv_run (mc_first c) (mc_verts c) (mc_last c)
  else basic_run (mc_first c) (mc_verts c) (mc_last c).

Definition bad_cases (cs : list mcase) : list Z :=
  flat_map (fun c => if list_eqb tri_eqb (model_tris c) (mc_tris c) then [] else [mc_id c]) cs.

(* F32.f32_round validation: (a, b, a*b rounded by Rust as f32) *)
Definition bad_f32 (cs : list (Z * Q * Q * Q)) : list Z :=
  flat_map (fun c => let '(i, a, b, r) := c in
                     if Qeq_bool (f32_round (a * b)) r then [] else [i]) cs.
