(* Correspondence runner for the curve algebra (C10, C11): the harness prints
   (curve kind, control points, operation code, parameters, what lyon_geom
   returned as exact rationals); [check] recomputes with the model. *)
From Coq Require Import QArith.
From LV Require Import Base.Prelude Model.Bezier.
Open Scope Q_scope.

Definition pts_of (l : list Q) : list qpt :=
  (fix go l := match l with x :: y :: r => (x, y) :: go r | _ => [] end) l.
Definition flatq (l : list qpt) : list Q := flat_map (fun p => [fst p; snd p]) l.

Definition nthq (l : list Q) (i : nat) : Q := nth i l 0.

Definition line_of (c : list Q) := mkLine (nthq c 0, nthq c 1) (nthq c 2, nthq c 3).
Definition quad_of (c : list Q) := mkQuad (nthq c 0, nthq c 1) (nthq c 2, nthq c 3) (nthq c 4, nthq c 5).
Definition cubic_of (c : list Q) :=
  mkCubic (nthq c 0, nthq c 1) (nthq c 2, nthq c 3) (nthq c 4, nthq c 5) (nthq c 6, nthq c 7).
Definition aff_of (p : list Q) := mkAff (nthq p 0) (nthq p 1) (nthq p 2) (nthq p 3) (nthq p 4) (nthq p 5).

Definition fl_line (l : lineseg) := flatq [l_from l; l_to l].
Definition fl_quad (q : quad) := flatq [q_from q; q_ctrl q; q_to q].
Definition fl_cubic (c : cubic) := flatq [c_from c; c_ctrl1 c; c_ctrl2 c; c_to c].

Definition oq (o : option Q) : list Q := match o with Some t => [1; t] | None => [0] end.

(* kind: 1 line, 2 quadratic, 3 cubic.  op codes: see harness/src/geom.rs *)
Definition eval_op (kind op : Z) (c p : list Q) : list Q :=
  match kind, op with
  | 1%Z, 1%Z => flatq [l_sample (line_of c) (nthq p 0)]
  | 1%Z, 2%Z => [l_x (line_of c) (nthq p 0); l_y (line_of c) (nthq p 0)]
  | 1%Z, 4%Z => fl_line (l_flip (line_of c))
  | 1%Z, 5%Z => fl_line (l_split_range (line_of c) (nthq p 0) (nthq p 1))
  | 1%Z, 6%Z => let '(a, b) := l_split (line_of c) (nthq p 0) in fl_line a ++ fl_line b
  | 1%Z, 7%Z => fl_line (l_before_split (line_of c) (nthq p 0))
  | 1%Z, 8%Z => fl_line (l_after_split (line_of c) (nthq p 0))
  | 1%Z, 9%Z => fl_line (l_transformed (aff_of p) (line_of c))
  | 2%Z, 1%Z => flatq [q_sample (quad_of c) (nthq p 0)]
  | 2%Z, 2%Z => [q_x (quad_of c) (nthq p 0); q_y (quad_of c) (nthq p 0)]
  | 2%Z, 3%Z => flatq [q_derivative (quad_of c) (nthq p 0)]
  | 2%Z, 18%Z => flatq [q_derivative (quad_of c) (nthq p 0)]     (* dx, dy *)
  | 2%Z, 4%Z => fl_quad (q_flip (quad_of c))
  | 2%Z, 5%Z => fl_quad (q_split_range (quad_of c) (nthq p 0) (nthq p 1))
  | 2%Z, 6%Z => let '(a, b) := q_split (quad_of c) (nthq p 0) in fl_quad a ++ fl_quad b
  | 2%Z, 7%Z => fl_quad (q_before_split (quad_of c) (nthq p 0))
  | 2%Z, 8%Z => fl_quad (q_after_split (quad_of c) (nthq p 0))
  | 2%Z, 9%Z => fl_quad (q_transformed (aff_of p) (quad_of c))
  | 2%Z, 10%Z => fl_cubic (q_to_cubic (quad_of c))
  | 2%Z, 11%Z => oq (q_local_x_extremum_t (quad_of c)) ++ oq (q_local_y_extremum_t (quad_of c))
  | 2%Z, 12%Z => let q := quad_of c in
                 [q_minimum_t (px (q_from q)) (px (q_ctrl q)) (px (q_to q));
                  q_maximum_t (px (q_from q)) (px (q_ctrl q)) (px (q_to q));
                  q_minimum_t (py (q_from q)) (py (q_ctrl q)) (py (q_to q));
                  q_maximum_t (py (q_from q)) (py (q_ctrl q)) (py (q_to q))]
  | 2%Z, 13%Z => let q := quad_of c in
                 let '(a, b) := q_bounding_range_x q in let '(c', d) := q_bounding_range_y q in [a; b; c'; d]
  | 2%Z, 14%Z => let q := quad_of c in
                 let '(a, b) := q_fast_bounding_range (px (q_from q)) (px (q_ctrl q)) (px (q_to q)) in
                 let '(c', d) := q_fast_bounding_range (py (q_from q)) (py (q_ctrl q)) (py (q_to q)) in
                 [a; b; c'; d]
  | 2%Z, 15%Z => flat_map (fun r => [fst r; snd r]) (q_monotonic_ranges (quad_of c))
  | 2%Z, 16%Z => flat_map fl_quad (q_monotonic_pieces (quad_of c))
  | 3%Z, 1%Z => flatq [c_sample (cubic_of c) (nthq p 0)]
  | 3%Z, 2%Z => [c_x (cubic_of c) (nthq p 0); c_y (cubic_of c) (nthq p 0)]
  | 3%Z, 3%Z => flatq [c_derivative (cubic_of c) (nthq p 0)]
  | 3%Z, 18%Z => flatq [c_derivative (cubic_of c) (nthq p 0)]    (* dx, dy *)
  | 3%Z, 4%Z => fl_cubic (c_flip (cubic_of c))
  | 3%Z, 5%Z => fl_cubic (c_split_range (cubic_of c) (nthq p 0) (nthq p 1))
  | 3%Z, 6%Z => let '(a, b) := c_split (cubic_of c) (nthq p 0) in fl_cubic a ++ fl_cubic b
  | 3%Z, 7%Z => fl_cubic (c_before_split (cubic_of c) (nthq p 0))
  | 3%Z, 8%Z => fl_cubic (c_after_split (cubic_of c) (nthq p 0))
  | 3%Z, 9%Z => fl_cubic (c_transformed (aff_of p) (cubic_of c))
  | 3%Z, 10%Z => fl_quad (c_to_quadratic (cubic_of c))
  (* cubic local extrema: the harness supplies the (exact) square root of the discriminant
     it observed as p[0] for x and p[1] for y *)
  | 3%Z, 17%Z => let cb := cubic_of c in
                 c_local_extrema (fun _ => nthq p 0) (px (c_from cb)) (px (c_ctrl1 cb)) (px (c_ctrl2 cb)) (px (c_to cb))
                 ++ [(-1)] ++
                 c_local_extrema (fun _ => nthq p 1) (py (c_from cb)) (py (c_ctrl1 cb)) (py (c_ctrl2 cb)) (py (c_to cb))
  | _, _ => [(-999)]
  end.

Definition qlist_eqb (a b : list Q) : bool := list_eqb Qeq_bool a b.

Record gcase := mkG { g_id : Z; g_kind : Z; g_op : Z; g_ctrl : list Q; g_par : list Q; g_out : list Q }.

Definition bad_cases (cs : list gcase) : list Z :=
  flat_map (fun c => if qlist_eqb (eval_op (g_kind c) (g_op c) (g_ctrl c) (g_par c)) (g_out c)
                     then [] else [g_id c]) cs.
