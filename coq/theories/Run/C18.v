(* Correspondence runner for C18: lattice polygons x query points. *)
From Coq Require Import QArith.
From LV Require Import Base.Prelude Model.Bezier Model.Winding.
Open Scope Q_scope.

(* a case: id, path (list of sub-paths as (first, pts)), list of (query point, reported winding,
   hit EvenOdd, hit NonZero), reported signed areas per sub-path, reported windings (1 = Positive) *)
Record wcase := mkW {
  w_id : Z; w_path : polypath;
  w_queries : list (qpt * Z * bool * bool);
  w_areas : list Q; w_windings : list Z }.

Definition check_query (path : polypath) (q : qpt * Z * bool * bool) : bool :=
  let '(p, w, eo, nz) := q in
  (path_winding p path =? w)%Z && Bool.eqb (hit_test p path EvenOdd) eo && Bool.eqb (hit_test p path NonZero) nz.

Definition check_case (c : wcase) : bool :=
  forallb (check_query (w_path c)) (w_queries c) &&
  list_eqb Qeq_bool (map sub_signed_area (w_path c)) (w_areas c) &&
  list_eqb Z.eqb (map (fun s => match compute_winding s with Positive => 1%Z | Negative => 0%Z end) (w_path c)) (w_windings c).

Definition bad_cases (cs : list wcase) : list Z :=
  flat_map (fun c => if check_case c then [] else [w_id c]) cs.
