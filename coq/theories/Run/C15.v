(* Correspondence runner for C15: SVG command sequences with the calls the wrapped builder saw.
   Coordinates are exact f32 values as rationals; the model's arithmetic is exactly-rounded f32
   addition / subtraction (IEEE add/sub are correctly rounded, so this is bit-exact). *)
From Coq Require Import QArith.
From LV Require Import Base.Prelude Base.F32 Model.Bezier Model.SvgBuilder.
Open Scope Q_scope.

Definition fadd (a b : Q) : Q := f32_round (a + b).
Definition fsub (a b : Q) : Q := f32_round (a - b).

Definition qcall := icall Q.
Definition qcmd := svg_cmd Q.

Definition pq_eqb (a b : Q * Q) : bool := Qeq_bool (fst a) (fst b) && Qeq_bool (snd a) (snd b).

Definition icall_eqb (a b : qcall) : bool :=
  match a, b with
  | IBegin _ p, IBegin _ q => pq_eqb p q
  | ILine _ p, ILine _ q => pq_eqb p q
  | IQuad _ c p, IQuad _ d q => pq_eqb c d && pq_eqb p q
  | ICubic _ c1 c2 p, ICubic _ d1 d2 q => pq_eqb c1 d1 && pq_eqb c2 d2 && pq_eqb p q
  | IEnd _ x, IEnd _ y => Bool.eqb x y
  | _, _ => false
  end.

Record scase := mkS { sc_id : Z; sc_cmds : list qcmd; sc_calls : list qcall }.

Definition model_calls (cmds : list qcmd) : list qcall := svg_run Q 0 fadd fsub cmds.
Definition sem_calls (cmds : list qcmd) : list qcall := sem_run Q 0 fadd fsub cmds.

(* 1 = adapter model differs from the implementation, 2 = SVG semantics differs from the implementation,
   3 = calls not well nested *)
Definition bad_cases (cs : list scase) : list (Z * list Z) :=
  flat_map (fun c =>
    let d := (if list_eqb icall_eqb (model_calls (sc_cmds c)) (sc_calls c) then [] else [1%Z]) ++
             (if list_eqb icall_eqb (sem_calls (sc_cmds c)) (sc_calls c) then [] else [2%Z]) ++
             (if well_nested Q false (sc_calls c) then [] else [3%Z]) in
    match d with [] => [] | _ => [(sc_id c, d)] end) cs.
