(* Correspondence runner for C14 (Path storage views).
   The Rust harness prints, for every builder program it ran against the real
   lyon_path code, the program and everything the real code returned; the
   functions here recompute the same observations with the model and report
   which views differ.  All numbers on the wire are Z. *)
From LV Require Import Base.Prelude Model.PathStore Model.PathSpec.
Open Scope Z_scope.


Definition event_eqb {E C} (eqE : E -> E -> bool) (eqC : C -> C -> bool) (a b : event E C) : bool :=
  match a, b with
  | EvBegin x, EvBegin y => eqE x y
  | EvLine a1 a2, EvLine b1 b2 => eqE a1 b1 && eqE a2 b2
  | EvQuad a1 c a2, EvQuad b1 d b2 => eqE a1 b1 && eqC c d && eqE a2 b2
  | EvCubic a1 c1 c2 a2, EvCubic b1 d1 d2 b2 => eqE a1 b1 && eqC c1 d1 && eqC c2 d2 && eqE a2 b2
  | EvEnd l f c, EvEnd l' f' c' => eqE l l' && eqE f f' && Bool.eqb c c'
  | _, _ => false
  end.

Definition oeqb {A} (eqb : A -> A -> bool) (a b : option A) : bool :=
  match a, b with
  | Some x, Some y => eqb x y
  | None, None => true
  | _, _ => false
  end.

(* what the implementation reported; [None] = the real code panicked *)
Record c14_obs := mkObs {
  o_ids : list Z;                               (* ids returned by the builder calls *)
  o_iter : option (list (event pt pt));
  o_id_iter : option (list (event Z Z));
  o_iter_attr : option (list (event ep pt));
  o_resolved : option (list (event ep pt));      (* id events through Index + attributes() *)
  o_reversed : option (list (event ep pt));
  o_first : option (option ep);
  o_last : option (option ep) }.

Definition id_event_to_Z (e : id_event) : event Z Z := map_event Z.of_nat Z.of_nat e.

Definition model_obs (n : nat) (ops : list bop) : c14_obs :=
  let p := build n ops in
  mkObs (map Z.of_nat (build_ids n ops))
        (iter p)
        (Some (map id_event_to_Z (id_iter p)))
        (iter_attr p)
        (id_iter_resolved p)
        (reversed p)
        (first_endpoint p)
        (last_endpoint p).

Definition evl_eqb {E C} (eqE : E -> E -> bool) (eqC : C -> C -> bool) :=
  oeqb (list_eqb (event_eqb eqE eqC)).

(* list of view codes that differ: 1 ids, 2 iter, 3 id_iter, 4 iter_attr,
   5 resolved, 6 reversed, 7 first, 8 last *)
Definition diff_obs (a b : c14_obs) : list Z :=
  (if list_eqb Z.eqb (o_ids a) (o_ids b) then [] else [1]) ++
  (if evl_eqb pt_eqb pt_eqb (o_iter a) (o_iter b) then [] else [2]) ++
  (if evl_eqb Z.eqb Z.eqb (o_id_iter a) (o_id_iter b) then [] else [3]) ++
  (if evl_eqb ep_eqb pt_eqb (o_iter_attr a) (o_iter_attr b) then [] else [4]) ++
  (if evl_eqb ep_eqb pt_eqb (o_resolved a) (o_resolved b) then [] else [5]) ++
  (if evl_eqb ep_eqb pt_eqb (o_reversed a) (o_reversed b) then [] else [6]) ++
  (if oeqb (oeqb ep_eqb) (o_first a) (o_first b) then [] else [7]) ++
  (if oeqb (oeqb ep_eqb) (o_last a) (o_last b) then [] else [8]).

Record c14_case := mkCase { k_id : Z; k_n : Z; k_ops : list bop; k_obs : c14_obs }.

Definition check_case (c : c14_case) : list Z :=
  diff_obs (model_obs (Z.to_nat (k_n c)) (k_ops c)) (k_obs c).

(* result: (case id, differing views) for every disagreeing case *)
Definition bad_cases (cs : list c14_case) : list (Z * list Z) :=
  flat_map (fun c => match check_case c with [] => [] | d => [(k_id c, d)] end) cs.

(* ---- polygon views: observed events of the iteration, of the id iteration resolved through the polygon, and of
   random access event(i) for i = 0 .. len *)
From LV Require Import Model.Polygon.
Definition pt_eqb' (a b : pt) : bool := pt_eqb a b.
Definition pevent_eqb := event_eqb pt_eqb' pt_eqb'.
Record poly_case := mkPoly { pc_id : Z; pc_pts : list pt; pc_closed : bool;
                             pc_iter : list pevent; pc_ids : list pevent; pc_random : list pevent }.
Definition poly_bad_cases (cs : list poly_case) : list Z :=
  flat_map (fun c =>
    let ev := poly_events (pc_pts c) (pc_closed c) in
    let ra := match pc_pts c with [] => [] | _ => map (poly_event (pc_pts c) (pc_closed c)) (seq 0 (S (length (pc_pts c)))) end in
    if list_eqb pevent_eqb ev (pc_iter c) && list_eqb pevent_eqb (poly_id_events (pc_pts c) (pc_closed c)) (pc_ids c)
       && list_eqb pevent_eqb ra (pc_random c)
    then [] else [pc_id c]) cs.

(* ---- command buffer (PathCommands): the EventIds returned by the builder calls, the ids visited by
   event() / next_event_id_in_path from EventId(0) and next_event_id_in_sub_path at each of them, against the
   model of commands.rs (EventIds are positions in the modelled buffer) *)
From LV Require Import Model.Commands.
Record cmd_case := mkCmd { cc_id : Z; cc_prog : list cop; cc_ids : list Z; cc_walk : list Z; cc_subs : list Z }.
Definition cmd_bad_cases (cs : list cmd_case) : list Z :=
  flat_map (fun c =>
    let cmds := cmd_build (cc_prog c) in
    let walk := match cc_prog c with
                | [] => Some []
                | _ => match cmd_walk (length cmds) cmds 0 with ROk l => Some (map fst l) | _ => None end
                end in
    let ok :=
      list_eqb Z.eqb (cmd_build_ids (cc_prog c)) (cc_ids c)
      && match walk with
         | Some ids =>
             list_eqb Z.eqb ids (cc_walk c)
             && list_eqb Z.eqb (map (fun i => match cmd_next_in_sub_path cmds i with Some j => j | None => (-1)%Z end) ids) (cc_subs c)
         | None => false
         end in
    if ok then [] else [cc_id c]) cs.
