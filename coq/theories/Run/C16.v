(* Correspondence runner for C16: builder programs with curves and attributes fed to
   builder::Flattened wrapped around a recording builder; the flattening points of every curve are
   the oracle (recorded from for_each_flattened_with_t); attributes are f32. *)
From Coq Require Import QArith.
From LV Require Import Base.Prelude Base.F32 Model.Flatten.
Open Scope Q_scope.

Definition qp := (Q * Q)%type.
Definition lerp32 (p a t : Q) : Q :=
  f32_round (f32_round (p * f32_round (1 - t)) + f32_round (a * t)).
Definition one (t : Q) : bool := Qeq_bool t 1.

Definition qfop := fop qp Q Q.
Definition qfcall := fcall qp Q.

Definition pq_eqb (a b : qp) : bool := Qeq_bool (fst a) (fst b) && Qeq_bool (snd a) (snd b).
Definition call_eqb (a b : qfcall) : bool :=
  match a, b with
  | CBegin _ _ p x, CBegin _ _ q y => pq_eqb p q && list_eqb Qeq_bool x y
  | CLine _ _ p x, CLine _ _ q y => pq_eqb p q && list_eqb Qeq_bool x y
  | CEnd _ _ x, CEnd _ _ y => Bool.eqb x y
  | _, _ => false
  end.

Record acase := mkAC { ac_id : Z; ac_n : Z; ac_ops : list qfop; ac_calls : list qfcall }.

Definition model_calls (c : acase) : list qfcall :=
  fb_run qp Q Q lerp32 one (repeat 0 (Z.to_nat (ac_n c))) (ac_ops c).

Definition bad_cases (cs : list acase) : list Z :=
  flat_map (fun c => if list_eqb call_eqb (model_calls c) (ac_calls c) then [] else [ac_id c]) cs.
