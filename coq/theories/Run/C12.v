(* Correspondence runner for C12: segment pairs with what LineSegment<f64>::intersection_t returned. *)
From Coq Require Import QArith.
From LV Require Import Base.Prelude Model.Bezier Model.LineInter Model.QuadLine.
Open Scope Q_scope.

(* a case: id, 8 integer coordinates (ax ay bx by cx cy dx dy), result: [] = None, [t;u] = Some *)
Record icase := mkI { i_id : Z; i_c : list Z; i_out : list Q }.

Definition nz (l : list Z) (i : nat) : Q := inject_Z (nth i l 0%Z).

Definition model_out (c : list Z) : list Q :=
  match seg_intersection_t (mkLine (nz c 0, nz c 1) (nz c 2, nz c 3)) (mkLine (nz c 4, nz c 5) (nz c 6, nz c 7)) with
  | Some (t, u) => [t; u]
  | None => []
  end.

(* f64 division is correctly rounded: the implementation's t is the double nearest to the model's
   rational; |impl - model| <= 2^-53 * |model| (model values are in [0,1]); equality when exact *)
Definition close (a b : Q) : bool :=
  Qle_bool (Qabs.Qabs (a - b) * (2 ^ 53)) (Qabs.Qabs b).

Definition bad_cases (cs : list icase) : list Z :=
  flat_map (fun c => let m := model_out (i_c c) in
                     if Nat.eqb (length m) (length (i_out c)) &&
                        forallb (fun ab => close (fst ab) (snd ab)) (combine (i_out c) m)
                     then [] else [i_id c]) cs.

(* ---- QuadraticBezierSegment::line_intersections_t against Model/QuadLine.v.
   A case: the curve (lattice control points), the line equation as the code computed it (exact on the harness's domain:
   axis-parallel lines with a power-of-two direction), the code's square root of the discriminant and the parameters the
   code returned.  The model runs with that square root; the code rounds the root and two quotients, so the parameters
   agree to 1e-12 (the harness leaves out the inputs where a rounding decides a comparison). *)
Record ql_case := mkQL { ql_id : Z; ql_curve : quad; ql_a : Q; ql_b : Q; ql_c : Q; ql_sd : Q; ql_out : list Q }.

Definition ql_close (a b : Q) : bool := Qle_bool (Qabs.Qabs (a - b) * 1000000000000) 1.

Definition ql_bad_cases (cs : list ql_case) : list Z :=
  flat_map (fun c =>
    let m := q_line_intersections_t (fun _ => ql_sd c) (ql_curve c) (ql_a c) (ql_b c) (ql_c c) in
    if Nat.eqb (length m) (length (ql_out c)) && forallb (fun ab => ql_close (fst ab) (snd ab)) (combine (ql_out c) m)
    then [] else [ql_id c]) cs.
