(* Correspondence runner for C12: segment pairs with what LineSegment<f64>::intersection_t returned. *)
From Coq Require Import QArith.
From LV Require Import Base.Prelude Model.Bezier Model.LineInter.
Open Scope Q_scope.

(* a case: id, 8 integer coordinates (ax ay bx by cx cy dx dy), result: [] = None, [t;u] = Some *)
Record icase := mkI { i_id : Z; i_c : list Z; i_out : list Q }.

Definition nz (l : list Z) (i : nat) : Q := inject_Z (nth i l 0%Z).

Definition model_out (c : list Z) : list Q :=
  match seg_intersection_t (mkLine (nz c 0, nz c 1) (nz c 2, nz c 3)) (mkLine (nz c 4, nz c 5) (nz c 6, nz c 7)) with
  | Some (t, u) => [t; u]
  | None => []
  end.

(* f64 division is correctly rounded: the implementation's t is the double nearest to the model's
   rational; |impl - model| <= 2^-53 * |model| (model values are in [0,1]); equality when exact *)
Definition close (a b : Q) : bool :=
  Qle_bool (Qabs.Qabs (a - b) * (2 ^ 53)) (Qabs.Qabs b).

Definition bad_cases (cs : list icase) : list Z :=
  flat_map (fun c => let m := model_out (i_c c) in
                     if Nat.eqb (length m) (length (i_out c)) &&
                        forallb (fun ab => close (fst ab) (snd ab)) (combine (i_out c) m)
                     then [] else [i_id c]) cs.
