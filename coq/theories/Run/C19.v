(* Correspondence runner for C19: measurement tables with sampler query sequences, walker runs. *)
From Coq Require Import QArith.
From LV Require Import Base.Prelude Model.Bezier Model.Measure.
Open Scope Q_scope.

(* sampler case: table rows (dist, index, t), event kinds, queries (clamped dist, observed cursor,
   observed event index); the sampler starts with cursor 0 *)
Record scase := mkSC {
  sc_id : Z; sc_rows : list (Q * Z * Q); sc_kinds : list Z;
  sc_queries : list (Q * Z * Z) }.

Definition rows_of (l : list (Q * Z * Q)) : list mrow :=
  map (fun r => let '(d, i, t) := r in mkRow d (Z.to_nat i) t) l.

Fixpoint run_queries (tbl : list mrow) (kinds : list Z) (cursor : nat) (qs : list (Q * Z * Z)) : bool :=
  match qs with
  | [] => true
  | (d, c_obs, i_obs) :: r =>
      match sample_cursor tbl kinds cursor d false, sample_cursor tbl kinds cursor d true with
      | Some (c1, i1, k1), Some (c2, i2, k2) =>
          Nat.eqb c1 c2 && (Z.of_nat c1 =? c_obs)%Z && (Z.of_nat i1 =? i_obs)%Z && (k1 =? 1)%Z
          && run_queries tbl kinds c1 r
      | _, _ => false
      end
  end.

(* walker case: edge lengths, start, pattern distances, observed events (edge, advancement) *)
Record wcase := mkWC { wc_id : Z; wc_lengths : list Q; wc_start : Q; wc_pattern : list Q;
                       wc_events : list (Z * Q) }.

Definition walk_model (c : wcase) : list (Z * Q) :=
  map (fun e => let '(k, x, adv) := e in (Z.of_nat k, adv))
      (walk_edges 0 (wc_lengths c) (mkW 0 (wc_start c) 0 (wc_pattern c) false)).

Definition ev_eqb (a b : Z * Q) : bool := (fst a =? fst b)%Z && Qeq_bool (snd a) (snd b).

Inductive ccase := CS (c : scase) | CW (c : wcase).

Definition bad_cases (cs : list ccase) : list Z :=
  flat_map (fun c => match c with
    | CS c => if table_ok (rows_of (sc_rows c)) (sc_kinds c)
                 && run_queries (rows_of (sc_rows c)) (sc_kinds c) 0 (sc_queries c) then [] else [sc_id c]
    | CW c => if list_eqb ev_eqb (walk_model c) (wc_events c) then [] else [wc_id c]
    end) cs.
