(* Correspondence runner for C20: lattice paths hatched at angle 0 with a given offset sequence. *)
From Coq Require Import QArith.
From LV Require Import Base.Prelude Base.F32 Model.Bezier Model.Hatch.
Open Scope Q_scope.

Definition fadd (a b : Q) : Q := f32_round (a + b).
Definition fsub (a b : Q) : Q := f32_round (a - b).
Definition fmul (a b : Q) : Q := f32_round (a * b).
Definition fdiv (a b : Q) : Q := f32_round (a / b).

(* LineSegment::solve_x_for_y = self.x(self.solve_t_for_y(y)) with every f32 operation rounded *)
Definition f32_solve_x (e : hedge) (y : Q) : Q :=
  let dy := fsub (py (snd e)) (py (fst e)) in
  let t := if Qeq_bool dy 0 then 0 else fdiv (fsub y (py (fst e))) dy in
  fadd (fmul (px (fst e)) (fsub 1 t)) (fmul (px (snd e)) t).

Record hcase := mkHC {
  hc_id : Z; hc_path : hpath; hc_uv : qpt; hc_offsets : list Q;
  hc_segs : list (Z * Q * Q * Q * Q * Q * Q) }.   (* row, v, a.u, b.u, a.x, b.x, y *)

Definition seg_eqb (s : hseg) (t : Z * Q * Q * Q * Q * Q * Q) : bool :=
  let '(row, v, au, bu, ax, bx, y) := t in
  (hs_row s =? row)%Z && Qeq_bool (hs_v s) v && Qeq_bool (hs_au s) au && Qeq_bool (hs_bu s) bu
  && Qeq_bool (hs_ax s) ax && Qeq_bool (hs_bx s) bx && Qeq_bool (hs_y s) y.

Fixpoint segs_eqb (a : list hseg) (b : list (Z * Q * Q * Q * Q * Q * Q)) : bool :=
  match a, b with
  | [], [] => true
  | x :: r, y :: r' => seg_eqb x y && segs_eqb r r'
  | _, _ => false
  end.

Definition model_segs (c : hcase) : list hseg :=
  hatch f32_solve_x fadd fsub (build_events (hc_path c)) (px (hc_uv c)) (py (hc_uv c)) (hc_offsets c).

Definition bad_cases (cs : list hcase) : list Z :=
  flat_map (fun c => if segs_eqb (model_segs c) (hc_segs c) then [] else [hc_id c]) cs.
