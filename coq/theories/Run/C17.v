(* Correspondence runner for C17: strings with what PathParser::parse did (result + builder calls). *)
From Coq Require Import QArith.
From LV Require Import Base.Prelude Base.F32 Model.Parser Model.Printer.
Open Scope Z_scope.

(* ---- instantiation: f32 arithmetic on Q ---- *)
Definition fadd (a b : Q) : Q := f32_round (a + b).
Definition fsub (a b : Q) : Q := f32_round (a - b).
Definition fmul (a b : Q) : Q := f32_round (a * b).

(* Rust str::parse::<f32> restricted to the buffers parse_number can build:
   [-] digits [. digits] [(e|E) [-] digits], at least one mantissa digit, at least one exponent
   digit; any other character (e.g. a non-ASCII numeric) is an error.  Correctly rounded; a text whose
   value overflows f32 is an error (parse_number rejects the infinity str::parse returns). *)
Fixpoint digits (l : list Z) (acc : Z) (n : Z) : Z * Z * list Z :=   (* value, count, rest *)
  match l with
  | c :: r => if (48 <=? c) && (c <=? 57) then digits r (acc * 10 + (c - 48)) (n + 1) else (acc, n, l)
  | [] => (acc, n, [])
  end.

Definition pow10 (e : Z) : Q := if 0 <=? e then inject_Z (10 ^ e) else Qinv (inject_Z (10 ^ (- e))).

Definition parse_f32 (buf : list Z) : option Q :=
  let '(neg, l) := match buf with 45 :: r => (true, r) | _ => (false, buf) end in
  let '(ip, ni, l) := digits l 0 0 in
  let '(fp, nf, l) := match l with 46 :: r => digits r 0 0 | _ => (0, 0, l) end in
  if (ni + nf =? 0) then None
  else
    let mant := (inject_Z ip + inject_Z fp * pow10 (- nf))%Q in
    (* the parser rejects a text whose value rounds to an infinity (|v| >= 2^128 - 2^103 rounds to inf) *)
    let fin (e : Z) (rest : list Z) :=
      match rest with
      | [] => let v := (mant * pow10 e)%Q in
              if Qle_bool (inject_Z (2 ^ 128 - 2 ^ 103)) v then None
              else Some (f32_round (if neg then Qopp v else v))
      | _ => None
      end in
    match l with
    | [] => fin 0 []
    | c :: r =>
        if (c =? 101) || (c =? 69) then
          let '(eneg, r) := match r with 45 :: r' => (true, r') | _ => (false, r) end in
          let '(ev, ne, r) := digits r 0 0 in
          if ne =? 0 then None else fin (if eneg then - ev else ev) r
        else None
    end.

(* the hypothesis of C17_parse_total holds of this instance *)
Example parse_f32_empty : parse_f32 [] = None.
Proof. reflexivity. Qed.

(* char::is_whitespace (Unicode White_Space) *)
Definition is_ws (c : Z) : bool :=
  ((9 <=? c) && (c <=? 13)) || (c =? 32) || (c =? 133) || (c =? 160) || (c =? 5760)
  || ((8192 <=? c) && (c <=? 8202)) || (c =? 8232) || (c =? 8233) || (c =? 8239) || (c =? 8287) || (c =? 12288).
(* char::is_numeric on the code points the harness uses (ASCII digits, superscripts / fractions of
   Latin-1, Arabic-Indic digits); other code points do not occur in the generated strings *)
Definition is_num (c : Z) : bool :=
  ((48 <=? c) && (c <=? 57)) || (c =? 178) || (c =? 179) || (c =? 185) || ((188 <=? c) && (c <=? 190))
  || ((1632 <=? c) && (c <=? 1641)).

Definition qcall := pcall Q.

Definition pq_eqb (a b : Q * Q) : bool := Qeq_bool (fst a) (fst b) && Qeq_bool (snd a) (snd b).
Definition ql_eqb := list_eqb Qeq_bool.
Definition pcall_eqb (a b : qcall) : bool :=
  match a, b with
  | PBegin _ p x, PBegin _ q y => pq_eqb p q && ql_eqb x y
  | PLine _ p x, PLine _ q y => pq_eqb p q && ql_eqb x y
  | PQuad _ c p x, PQuad _ d q y => pq_eqb c d && pq_eqb p q && ql_eqb x y
  | PCubic _ c1 c2 p x, PCubic _ d1 d2 q y => pq_eqb c1 d1 && pq_eqb c2 d2 && pq_eqb p q && ql_eqb x y
  | PEnd _ x, PEnd _ y => Bool.eqb x y
  | _, _ => false
  end.

(* error summary on the wire: kind (0 ok, 1 number, 2 flag, 3 command, 4 missing move-to, 5 panic), line, col, char *)
Definition err_code (e : option perr) : list Z :=
  match e with
  | None => [0]
  | Some (ENumber _ l c) => [1; l; c]
  | Some (EFlag ch l c) => [2; l; c; ch]
  | Some (ECommand ch l c) => [3; l; c; ch]
  | Some (EMissingMoveTo ch l c) => [4; l; c; ch]
  | Some EPanic => [5]
  | Some EFuel => [6]
  end.

Record pcase := mkPC {
  pc_id : Z; pc_nattr : Z; pc_stop : option Z; pc_text : list Z;
  pc_oracles : list (arc_answer Q);
  pc_err : list Z; pc_calls : list qcall }.

Definition run_model (c : pcase) : list qcall * option perr :=
  parse Q 0%Q 1%Q fadd fsub fmul parse_f32 is_ws is_num (Z.to_nat (pc_nattr c)) (pc_stop c)
        [] (pc_oracles c) (pc_text c).

(* 1 = result differs, 2 = builder calls differ, 3 = calls not well nested *)
Definition bad_cases (cs : list pcase) : list (Z * list Z) :=
  flat_map (fun c =>
    let '(calls, e) := run_model c in
    let d := (if list_eqb Z.eqb (err_code e) (pc_err c) then [] else [1]) ++
             (if list_eqb pcall_eqb calls (pc_calls c) then [] else [2]) ++
             (if pnested Q false (pc_calls c) then [] else [3]) in
    match d with [] => [] | _ => [(pc_id c, d)] end) cs.

(* ---- printer correspondence: the Debug printer of a stored path (quotes stripped) against
   Model/Printer.v; numbers are represented by their printed texts ([fmt] = identity), which must
   have the shape assumed by the round-trip theorem ---- *)
Record prcase := mkPR { pr_id : Z; pr_calls : list (pcall (list Z)); pr_text : list Z }.

Definition print_bad_cases (cs : list prcase) : list Z :=
  flat_map (fun c =>
    if list_eqb Z.eqb (print (list Z) (fun x => x) (pr_calls c)) (pr_text c)
       && forallb (fun k => forallb num_shape (call_nums (list Z) k)) (pr_calls c)
    then [] else [pr_id c]) cs.
