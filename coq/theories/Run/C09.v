(* Correspondence runner for C09: the parameter ranges handed to the flattening callbacks are
   recomputed by the control-structure model from the recorded oracles (per-quadratic parameter
   lists, sub-curve ranges), with exactly-rounded arithmetic of the scalar type (24 or 53 bits). *)
From Coq Require Import QArith.
From LV Require Import Base.Prelude Base.F32 Model.Flatten Model.Bezier Checker.Region Checker.CurveDev.
Open Scope Q_scope.

Definition nthq (l : list Q) (i : nat) : Q := nth i l 0.

(* quadratic: ts = what FlattenedT yielded (inner parameters then 1) *)
Definition quad_ranges (ts : list Q) : list (Q * Q) :=
  map (fun p => (pc_t0 Q Q p, pc_t1 Q Q p))
      (quad_callback Q Q 0 1 0 1 (fun t => t) (length ts) (fun i => nthq ts (i - 1))).

Record qsub := mkQS { qs_r0 : Q; qs_r1 : Q; qs_ts : list Q }.

Definition cubic_ranges (prec : Z) (quads : list qsub) : list (Q * Q) :=
  let q j := nth j quads (mkQS 0 0 []) in
  let rnd := fp_round prec in
  let remap u j := rnd (rnd (u * rnd (qs_r1 (q j) - qs_r0 (q j))) + qs_r0 (q j)) in
  map (fun p => (pc_t0 Q Q p, pc_t1 Q Q p))
      (cubic_callback Q Q 0 1 (length quads)
         (fun j => 0) (fun j => 1) (fun j t => t)
         (fun j => length (qs_ts (q j))) (fun j i => nthq (qs_ts (q j)) (i - 1))
         remap (fun t => Qeq_bool t 1)).

Inductive fcase :=
| QC (id : Z) (ts : list Q) (ranges : list (Q * Q))
| CC (id : Z) (prec : Z) (quads : list qsub) (ranges : list (Q * Q)).

Definition rng_eqb (a b : Q * Q) : bool := Qeq_bool (fst a) (fst b) && Qeq_bool (snd a) (snd b).

Definition bad_cases (cs : list fcase) : list Z :=
  flat_map (fun c => match c with
    | QC id ts ranges => if list_eqb rng_eqb (quad_ranges ts) ranges then [] else [id]
    | CC id prec quads ranges => if list_eqb rng_eqb (cubic_ranges prec quads) ranges then [] else [id]
    end) cs.

(* ---- verified curve-deviation cases (Checker/CurveDev.v, soundness in Props/C09.v) ----
   Each flattening is decided twice: against the tolerance itself ([tol2]) and, when a witness is found there,
   against the budget of the known finding K6 ([loose2], 1.5 e resp. 2 e for tolerances that are large against the
   curve).  Report codes: 0 = undecided range (fuel exhausted; never an alarm), 1 = parameters not ordered / not
   ending at 1, 2 = witness: a curve point (range index, parameter num / den) farther than the K6 budget from every
   segment, 3 = vertex i farther than the tolerance from the curve point of its own parameter, 4 = witness beyond the
   tolerance but within the K6 budget (a known finding, with the witness) *)
Inductive dcase :=
| QD (id : Z) (tol2 loose2 vtol2 : Q) (c : quad) (ts : list Q) (pts : list qpt)
| CD (id : Z) (tol2 loose2 vtol2 : Q) (c : cubic) (ts : list Q) (pts : list qpt).

Definition dev_fuel : nat := 12.

Definition witnesses (code : Z) (id : Z) (l : list (Z * verdict)) : list (Z * Z * list Z) :=
  flat_map (fun x => match snd x with
                     | VFar t => [(id, code, [fst x; Qnum t; Zpos (Qden t)])]
                     | _ => []
                     end) l.
Definition unknowns (id : Z) (l : list (Z * verdict)) : list (Z * Z * list Z) :=
  flat_map (fun x => match snd x with VUnknown => [(id, 0%Z, [fst x])] | _ => [] end) l.
Definition has_far (l : list (Z * verdict)) : bool :=
  existsb (fun x => match snd x with VFar _ => true | _ => false end) l.

Definition dev_report (id : Z) (tight : option (list (Z * verdict))) (loose : unit -> option (list (Z * verdict)))
                      (vfar : list Z) : list (Z * Z * list Z) :=
  match tight with
  | None => [(id, 1%Z, [])]
  | Some l =>
      (if has_far l then
         match loose tt with
         | Some l2 => if has_far l2 then witnesses 2%Z id l2 else witnesses 4%Z id l
         | None => [(id, 1%Z, [])]
         end
       else [])
      ++ unknowns id l
  end ++ map (fun i => (id, 3%Z, [i])) vfar.

Definition dev_bad_cases (cs : list dcase) : list (Z * Z * list Z) :=
  flat_map (fun c => match c with
    | QD id tol2 loose2 vtol2 c ts pts =>
        dev_report id (quad_flat_check dev_fuel tol2 c ts pts) (fun _ => quad_flat_check dev_fuel loose2 c ts pts)
                   (quad_vertices_far vtol2 c ts (tl pts) 1%Z)
    | CD id tol2 loose2 vtol2 c ts pts =>
        dev_report id (cubic_flat_check dev_fuel tol2 c ts pts) (fun _ => cubic_flat_check dev_fuel loose2 c ts pts)
                   (cubic_vertices_far vtol2 c ts (tl pts) 1%Z)
    end) cs.
