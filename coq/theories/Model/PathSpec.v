(* The reference semantics of a builder program: what events a path built by
   a well-nested sequence of builder calls must yield.  Written independently
   of the storage layout (no point array, no strides). *)
From LV Require Import Base.Prelude Model.PathStore.

Inductive edge :=
| ELine (to : pt) (a : list Z)
| EQuad (c to : pt) (a : list Z)
| ECubic (c1 c2 to : pt) (a : list Z).

Record subpath := mkSub {
  sp_at : pt; sp_attrs : list Z; sp_edges : list edge; sp_close : bool }.

Definition program := list subpath.

Definition edge_to (e : edge) : pt * list Z :=
  match e with ELine p a => (p, a) | EQuad _ p a => (p, a) | ECubic _ _ p a => (p, a) end.

Definition op_of_edge (e : edge) : bop :=
  match e with
  | ELine p a => OLine p a
  | EQuad c p a => OQuad c p a
  | ECubic c1 c2 p a => OCubic c1 c2 p a
  end.

Definition ops_of_sub (s : subpath) : list bop :=
  OBegin (sp_at s) (sp_attrs s) :: map op_of_edge (sp_edges s) ++ [OEnd (sp_close s)].

Definition ops_of (p : program) : list bop := flat_map ops_of_sub p.

(* every attribute vector has exactly n entries *)
Definition edge_attrs_ok (n : nat) (e : edge) : Prop := length (snd (edge_to e)) = n.
Definition sub_attrs_ok (n : nat) (s : subpath) : Prop :=
  length (sp_attrs s) = n /\ Forall (edge_attrs_ok n) (sp_edges s).
Definition attrs_ok (n : nat) (p : program) : Prop := Forall (sub_attrs_ok n) p.

(* events of the edges of a sub-path, starting at [cur]; returns the last endpoint *)
Fixpoint spec_edges (cur : pt * list Z) (es : list edge) : list attr_event * (pt * list Z) :=
  match es with
  | [] => ([], cur)
  | e :: r =>
      let ev := match e with
                | ELine p a => EvLine cur (p, a)
                | EQuad c p a => EvQuad cur c (p, a)
                | ECubic c1 c2 p a => EvCubic cur c1 c2 (p, a)
                end in
      let '(evs, last) := spec_edges (edge_to e) r in (ev :: evs, last)
  end.

Definition spec_sub (s : subpath) : list attr_event :=
  let first := (sp_at s, sp_attrs s) in
  let '(evs, last) := spec_edges first (sp_edges s) in
  EvBegin first :: evs ++ [EvEnd last first (sp_close s)].

Definition spec_events (p : program) : list attr_event := flat_map spec_sub p.

Definition strip (e : attr_event) : path_event := map_event fst (fun c => c) e.

(* ----------------------------------------------------- well-formedness *)

Definition ep := (pt * list Z)%type.

Definition ep_eqb (a b : ep) : bool := pt_eqb (fst a) (fst b) && list_eqb Z.eqb (snd a) (snd b).


(* The grammar (Begin edge* End)* with chaining, stated directly on an event
   list: [wf_from None] = outside a sub-path; [wf_from (Some (first, cur))] =
   inside one. *)
Fixpoint wf_events {E C} (eqb : E -> E -> bool) (st : option (E * E)) (l : list (event E C)) : bool :=
  match l, st with
  | [], None => true
  | [], Some _ => false
  | EvBegin a :: r, None => wf_events eqb (Some (a, a)) r
  | EvLine f t :: r, Some (first, cur) => eqb f cur && wf_events eqb (Some (first, t)) r
  | EvQuad f _ t :: r, Some (first, cur) => eqb f cur && wf_events eqb (Some (first, t)) r
  | EvCubic f _ _ t :: r, Some (first, cur) => eqb f cur && wf_events eqb (Some (first, t)) r
  | EvEnd l f _ :: r, Some (first, cur) => eqb l cur && eqb f first && wf_events eqb None r
  | _, _ => false
  end.

(* ------------------------------------------------------------ reversal *)

(* the reversed sub-path: starts at the last endpoint, traverses edges backwards;
   the attributes of an edge's start become the attributes of the reversed
   edge's endpoint *)
Fixpoint rev_edges (start : pt * list Z) (es : list edge) (acc : list edge)
  : list edge * (pt * list Z) :=
  match es with
  | [] => (acc, start)
  | e :: r =>
      let back := match e with
                  | ELine _ _ => ELine (fst start) (snd start)
                  | EQuad c _ _ => EQuad c (fst start) (snd start)
                  | ECubic c1 c2 _ _ => ECubic c2 c1 (fst start) (snd start)
                  end in
      rev_edges (edge_to e) r (back :: acc)
  end.

Definition rev_sub (s : subpath) : subpath :=
  let '(es, last) := rev_edges (sp_at s, sp_attrs s) (sp_edges s) [] in
  mkSub (fst last) (snd last) es (sp_close s).

Definition rev_prog (p : program) : program := rev (map rev_sub p).
