(* Model of crates/algorithms/src/hatching.rs for polygonal input at hatching angle 0 (the
   rotation is then the identity): EventsBuilder::add_edge (orient, drop zero-length), build (sort),
   Hatcher::hatch (row loop), update_sweep_line (lazy retain), hatch_line (stable sort by x,
   skip edges ending at or above the row, toggle).  The abscissa of an edge on a row
   ([solve_x], LineSegment::solve_x_for_y) and the addition used for `y += offset` are Section
   parameters: the structural theorems hold for any; the correspondence run instantiates them with
   the exactly-rounded f32 operation sequence, the geometric theorem with exact rational ones. *)
From Coq Require Import QArith Qminmax.
From LV Require Import Base.Prelude Model.Bezier.
Open Scope Q_scope.

Definition hedge := (qpt * qpt)%type.      (* (from, to), oriented by compare_positions *)

(* compare_positions a b = Greater *)
Definition pos_gt (a b : qpt) : bool :=
  Qltb (py b) (py a) || (Qeq_bool (py a) (py b) && Qltb (px b) (px a)).
(* compare_positions a b = Less *)
Definition pos_lt (a b : qpt) : bool := pos_gt b a.

Definition add_edge (edges : list hedge) (from to : qpt) : list hedge :=
  if peqb from to then edges
  else if pos_gt from to then edges ++ [(to, from)] else edges ++ [(from, to)].

(* stable insertion sort: insert after the elements that are not greater (like a stable merge sort) *)
Fixpoint insert_by {A} (gt : A -> A -> bool) (x : A) (l : list A) : list A :=
  match l with
  | [] => [x]
  | y :: r => if gt y x then x :: l else y :: insert_by gt x r
  end.
Definition sort_by {A} (gt : A -> A -> bool) (l : list A) : list A :=
  fold_left (fun acc x => insert_by gt x acc) l [].

(* polygonal path: sub-paths as (first, line_to points); `end` always adds the edge current -> first *)
Definition hpath := list (qpt * list qpt).
Fixpoint sub_edges_from (edges : list hedge) (cur first : qpt) (pts : list qpt) : list hedge :=
  match pts with
  | [] => add_edge edges cur first
  | p :: r => sub_edges_from (add_edge edges cur p) p first r
  end.
Definition build_events (p : hpath) : list hedge :=
  sort_by (fun a b => pos_gt (fst a) (fst b))
          (fold_left (fun acc s => sub_edges_from acc (fst s) (fst s) (snd s)) p []).

Section Hatch.
Variable solve_x : hedge -> Q -> Q.
Variable fadd : Q -> Q -> Q.
Variable fsub : Q -> Q -> Q.

Record hseg := mkHS { hs_row : Z; hs_v : Q; hs_au : Q; hs_bu : Q; hs_ax : Q; hs_bx : Q; hs_y : Q }.

(* the toggle loop over the (sorted) active edges *)
Fixpoint line_go (y : Q) (uvx uvy : Q) (row : Z) (act : list hedge) (inside : bool) (prev_x : Q) : list hseg :=
  match act with
  | [] => []
  | e :: r =>
      if Qle_bool (py (snd e)) y then line_go y uvx uvy row r inside prev_x
      else
        let x := solve_x e y in
        (if inside then [mkHS row (fsub y uvy) (fsub prev_x uvx) (fsub x uvx) prev_x x y] else [])
        ++ line_go y uvx uvy row r (negb inside) x
  end.

(* hatch_line: returns the sorted active list (the sort is in place in the Rust code) and the segments *)
Definition hatch_line (y uvx uvy : Q) (row : Z) (act : list hedge) : list hedge * list hseg :=
  let act' := sort_by (fun a b => Qltb (solve_x b y) (solve_x a y)) act in
  (act', line_go y uvx uvy row act' false 0).

Definition update_sweep_line (act : list hedge) (e : hedge) : list hedge :=
  filter (fun a => negb (pos_lt (snd a) (fst e))) act ++ [e].

(* offsets: the values returned by HatchBuilder::next_offset, in call order; running out of the
   list stands for a pattern that returns a non-positive offset *)
Record hstate := mkH { h_y : Q; h_ymax : Q; h_row : Z; h_act : list hedge; h_offs : list Q;
                        h_out : list hseg; h_stop : bool;
                        h_rows : list (Q * list hedge) }.   (* ghost: (y, active edges) at each hatch_line call *)

(* `while y < limit { hatch_line; offset = next_offset; y += offset; if offset <= 0 return }` *)
Fixpoint rows_until (fuel : nat) (limit : Q) (uvx uvy : Q) (s : hstate) : hstate :=
  match fuel with
  | O => s
  | S f =>
      if h_stop s then s
      else if Qltb (h_y s) limit then
        let '(act, segs) := hatch_line (h_y s) uvx uvy (h_row s) (h_act s) in
        match h_offs s with
        | [] => mkH (h_y s) (h_ymax s) (h_row s + 1)%Z act [] (h_out s ++ segs) true
                    (h_rows s ++ [(h_y s, h_act s)])
        | o :: rest =>
            let s' := mkH (fadd (h_y s) o) (h_ymax s) (h_row s + 1)%Z act rest (h_out s ++ segs)
                          (Qle_bool o 0) (h_rows s ++ [(h_y s, h_act s)]) in
            rows_until f limit uvx uvy s'
        end
      else s
  end.

Definition hatch_run (events : list hedge) (uvx uvy : Q) (offsets : list Q) : option hstate :=
  match events, offsets with
  | [], _ => None
  | first :: _, [] => None        (* next_offset(0) unavailable: modelled as "no rows" *)
  | first :: _, o0 :: offs =>
      let fuel := S (length offsets) in
      let y0 := fadd (py (fst first)) o0 in
      let s0 := mkH y0 y0 0%Z [] offs [] false [] in
      let s := fold_left (fun s e =>
                  if h_stop s then s
                  else
                    let s := rows_until fuel (py (fst e)) uvx uvy s in
                    if h_stop s then s
                    else mkH (h_y s) (Qmax (h_ymax s) (py (snd e))) (h_row s)
                             (update_sweep_line (h_act s) e) (h_offs s) (h_out s) false (h_rows s))
                events s0 in
      Some (if h_stop s then s else rows_until fuel (h_ymax s) uvx uvy s)
  end.

Definition hatch (events : list hedge) (uvx uvy : Q) (offsets : list Q) : list hseg :=
  match hatch_run events uvx uvy offsets with Some s => h_out s | None => [] end.
(* the rows that were hatched: (y, active edge list handed to hatch_line) *)
Definition hatch_rows (events : list hedge) (uvx uvy : Q) (offsets : list Q) : list (Q * list hedge) :=
  match hatch_run events uvx uvy offsets with Some s => h_rows s | None => [] end.

End Hatch.

(* exact abscissa of an edge at height y (LineSegment::solve_x_for_y in exact arithmetic) *)
Definition exact_solve_x (e : hedge) (y : Q) : Q :=
  let dy := py (snd e) - py (fst e) in
  if Qeq_bool dy 0 then px (fst e)
  else let t := (y - py (fst e)) / dy in px (fst e) * (1 - t) + px (snd e) * t.

(* an edge crosses the row y (half-open rule) *)
Definition crosses (y : Q) (e : hedge) : bool := Qle_bool (py (fst e)) y && Qltb y (py (snd e)).
