(* Model of crates/tessellation/src/geometry_builder.rs : BuffersBuilder as a state machine
   (begin_geometry, add_{fill,stroke}_vertex, add_triangle, end_geometry, abort_geometry), the
   VertexId -> index-type conversion as an explicit wrap, and the call-trace language used to
   state the geometry-builder protocol.  Vertex payloads are opaque (a type parameter). *)
From LV Require Import Base.Prelude.
Open Scope Z_scope.

Section GB.
Variable V : Type.                (* output vertex type *)

Record bb := mkBB {
  bb_vertices : list V;
  bb_indices : list Z;            (* values after conversion to the index type *)
  bb_first_vertex : Z;
  bb_first_index : Z;
  bb_vertex_offset : Z;
  bb_max : Z;                     (* OutputIndex::MAX *)
  bb_modulus : Z }.               (* 2^bits of the index type: `id as u16` etc. *)

(* BuffersBuilder::new(buffers, ctor) [.with_vertex_offset(off)] on existing buffer contents *)
Definition bb_new (vs : list V) (is : list Z) (off max modulus : Z) : bb :=
  mkBB vs is (Z.of_nat (length vs)) (Z.of_nat (length is)) off max modulus.

Definition bb_begin (b : bb) : bb :=
  mkBB (bb_vertices b) (bb_indices b) (Z.of_nat (length (bb_vertices b))) (Z.of_nat (length (bb_indices b)))
       (bb_vertex_offset b) (bb_max b) (bb_modulus b).

(* add_*_vertex: push, THEN test len > MAX.  Returns the new state and Ok id / Err *)
Definition bb_add_vertex (b : bb) (v : V) : bb * option Z :=
  let vs := bb_vertices b ++ [v] in
  let len := Z.of_nat (length vs) in
  let b' := mkBB vs (bb_indices b) (bb_first_vertex b) (bb_first_index b) (bb_vertex_offset b) (bb_max b) (bb_modulus b) in
  if bb_max b <? len then (b', None) else (b', Some (len - 1)).

(* (id + vertex_offset).into() : u32 addition then `as` cast to the index type *)
Definition to_index (b : bb) (id : Z) : Z := ((id + bb_vertex_offset b) mod 4294967296) mod bb_modulus b.

Definition bb_add_triangle (b : bb) (x y z : Z) : bb :=
  mkBB (bb_vertices b) (bb_indices b ++ [to_index b x; to_index b y; to_index b z])
       (bb_first_vertex b) (bb_first_index b) (bb_vertex_offset b) (bb_max b) (bb_modulus b).

Definition bb_abort (b : bb) : bb :=
  mkBB (firstn (Z.to_nat (bb_first_vertex b)) (bb_vertices b))
       (firstn (Z.to_nat (bb_first_index b)) (bb_indices b))
       (bb_first_vertex b) (bb_first_index b) (bb_vertex_offset b) (bb_max b) (bb_modulus b).

(* ---- call traces: what a tessellation did to its geometry builder ---- *)
Inductive gcall :=
| GBegin
| GVertex (v : V) (ret : option Z)     (* Some id = accepted with that id; None = refused *)
| GTri (a b c : Z)
| GEnd
| GAbort.

(* replay of a trace on the BuffersBuilder model (the [ret] fields are ignored: the model computes
   its own answers; [bb_run_ids] returns them for comparison) *)
Definition bb_step (b : bb) (c : gcall) : bb * list (option Z) :=
  match c with
  | GBegin => (bb_begin b, [])
  | GVertex v _ => let '(b', r) := bb_add_vertex b v in (b', [r])
  | GTri x y z => (bb_add_triangle b x y z, [])
  | GEnd => (b, [])
  | GAbort => (bb_abort b, [])
  end.

Fixpoint bb_run (b : bb) (t : list gcall) : bb * list (option Z) :=
  match t with
  | [] => (b, [])
  | c :: r => let '(b1, o1) := bb_step b c in let '(b2, o2) := bb_run b1 r in (b2, o1 ++ o2)
  end.

(* ---- the protocol as a decidable predicate on traces ----
   empty trace, or: Begin, then vertices / triangles whose ids were returned since that Begin,
   at most ... then exactly one End (all vertices accepted) or Abort, and nothing afterwards. *)
Fixpoint body_ok (known : list Z) (failed : bool) (t : list gcall) : option (bool * bool) :=
  (* Some (ended_with_end, a vertex was refused) *)
  match t with
  | [] => None                                          (* missing End / Abort *)
  | GBegin :: _ => None
  | GVertex _ (Some id) :: r => body_ok (id :: known) failed r
  | GVertex _ None :: r => body_ok known true r
  | GTri a b c :: r =>
      if existsb (Z.eqb a) known && existsb (Z.eqb b) known && existsb (Z.eqb c) known
      then body_ok known failed r else None
  | GEnd :: r => match r with [] => Some (true, failed) | _ => None end
  | GAbort :: r => match r with [] => Some (false, failed) | _ => None end
  end.

(* success = the call returned Ok *)
Definition trace_ok (success : bool) (t : list gcall) : bool :=
  match t with
  | [] => negb success   (* untouched builder: only for a call rejected before it started (e.g. invalid tolerance) *)
  | GBegin :: r =>
      match body_ok [] false r with
      | Some (ended, failed) =>
          if success then ended && negb failed      (* success: End, no refused vertex *)
          else negb ended                           (* failure: Abort *)
      | None => false
      end
  | _ => false
  end.

End GB.
