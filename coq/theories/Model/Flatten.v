(* Model of the CONTROL STRUCTURE of every flattening interface of lyon_geom / lyon_path, parametric
   in the numeric oracles (Levien's step count and parameter function, the number of quadratics of
   a cubic):
     quadratic_bezier.rs  for_each_flattened_with_t, Flattened (points), FlattenedT (parameters)
     cubic_bezier.rs      for_each_quadratic_bezier_with_t, for_each_flattened_with_t, Flattened
     path/private.rs      flatten_quadratic_bezier / flatten_cubic_bezier (attribute interpolation)
     path/builder.rs      Flattened<Builder> (prev_attributes bookkeeping)
     path/iterator.rs     Flattened<Iter>
   Points, parameters and their arithmetic are abstract (Section variables), so the theorems hold
   for every oracle and every arithmetic; the correspondence run instantiates the oracles with the
   values recorded from the real code and the arithmetic with exactly-rounded floats. *)
From LV Require Import Base.Prelude.

Section Flatten.
Variable P : Type.                 (* points *)
Variable T : Type.                 (* curve parameters *)
Variables t0 t1 : T.               (* 0 and 1 *)

(* a flattened piece: segment end points and parameter range *)
Record piece := mkPiece { pc_from : P; pc_to : P; pc_t0 : T; pc_t1 : T }.

(* ---------------------------------------------------------------- quadratic
   oracle: [count] = params.count as u32, [t_at i] = params.t_at_iteration(i) *)
Section Quad.
Variable from to : P.
Variable sample : T -> P.
Variable count : nat.
Variable t_at : nat -> T.

(* for _ in 1..count { t = t_at(i); i += 1; emit (from, sample t, t_from..t); from = ..; t_from = t }
   then emit (from, self.to, t_from..1) *)
Fixpoint quad_loop (n : nat) (i : nat) (cur : P) (t_from : T) : list piece :=
  match n with
  | O => [mkPiece cur to t_from t1]
  | S k => let t := t_at i in
           mkPiece cur (sample t) t_from t :: quad_loop k (S i) (sample t) t
  end.
Definition quad_callback : list piece := quad_loop (count - 1) 1 from t0.

(* Flattened (points): i = 1; next: if i >= count then Some(to), done else sample(t_at i), i += 1 *)
Fixpoint quad_iter_points (fuel : nat) (i : nat) : list P :=
  match fuel with
  | O => []
  | S f => if Nat.leb count i then [to] else sample (t_at i) :: quad_iter_points f (S i)
  end.
Definition quad_points : list P := quad_iter_points (S count) 1.

(* FlattenedT (parameters) *)
Fixpoint quad_iter_ts (fuel : nat) (i : nat) : list T :=
  match fuel with
  | O => []
  | S f => if Nat.leb count i then [t1] else t_at i :: quad_iter_ts f (S i)
  end.
Definition quad_ts : list T := quad_iter_ts (S count) 1.
End Quad.

(* ---------------------------------------------------------------- cubic
   oracle: [nq] = num_quadratics, per quadratic j its range [qr0 j, qr1 j] (qr1 of the last one is
   exactly 1 in the callback), its end points and sampler, and its own (count, t_at) oracle.
   [affine u a b] = u * (b - a) + a  (range_sub.end * range_len + range.start). *)
Section Cubic.
Variable cfrom cto : P.
Variable csample : T -> P.
Variable nq : nat.
Variable q_from q_to : nat -> P.
Variable q_sample : nat -> T -> P.
Variable q_count : nat -> nat.
Variable q_t_at : nat -> nat -> T.
Variable qr0 qr1 : nat -> T.
Variable remap : T -> nat -> T.      (* u, j |-> u * range_len_j + range_start_j *)
Variable is_one : T -> bool.         (* t == 1.0 *)

(* for_each_flattened_with_t: pieces of quadratic j, with parameters mapped to the cubic *)
Definition cubic_quad_pieces (j : nat) (t_from : T) : list piece * T :=
  let last_quad := Nat.eqb (S j) nq in
  fold_left (fun (acc : list piece * T) (p : piece) =>
               let '(out, tf) := acc in
               let last_seg := is_one (pc_t1 p) in
               let t := if last_quad && last_seg then t1 else remap (pc_t1 p) j in
               (out ++ [mkPiece (pc_from p) (pc_to p) tf t], t))
            (quad_callback (q_from j) (q_to j) (q_sample j) (q_count j) (q_t_at j))
            ([], t_from).

Fixpoint cubic_loop (n : nat) (j : nat) (t_from : T) : list piece :=
  match n with
  | O => []
  | S k => let '(ps, tf) := cubic_quad_pieces j t_from in ps ++ cubic_loop k (S j) tf
  end.
Definition cubic_callback : list piece := cubic_loop nq 0 t0.

(* cubic_bezier::Flattened (points): parameters of quadratic j mapped with the ACCUMULATED range
   start [acc_start j] and the constant step; the very last point is the curve's end (after the
   fix of the pinned tree; before it, it was csample of the accumulated parameter) *)
Variable iter_map : T -> nat -> T.   (* t_inner, j |-> range_start_j(accumulated) + t_inner * range_step *)
Definition cubic_iter_points : list P :=
  flat_map (fun j =>
              map (fun t => if Nat.eqb (S j) nq && is_one t then cto else csample (iter_map t j))
                  (quad_ts (q_count j) (q_t_at j)))
           (seq 0 nq).
End Cubic.

(* ---------------------------------------------------------------- path level
   [fl from seg] = the flattening oracle of one curve: the list of (point, t_end), satisfying only
   C09's structural guarantee (last entry = (to, 1)) *)
Variable A : Type.                  (* one custom attribute value *)
Variable lerp : A -> A -> T -> A.   (* prev * (1 - t) + attr * t *)
Variable is_one : T -> bool.

Inductive fop :=
| FBegin (p : P) (a : list A) | FLine (p : P) (a : list A)
| FCurve (pts : list (P * T)) (to : P) (a : list A)   (* a quadratic or cubic with its oracle *)
| FEnd (close : bool).

Inductive fcall := CBegin (p : P) (a : list A) | CLine (p : P) (a : list A) | CEnd (close : bool).

(* private::flatten_*_bezier: attributes of an inserted point *)
Definition interp (prev attr : list A) (t : T) : list A :=
  if is_one t then attr else map (fun pa => lerp (fst pa) (snd pa) t) (combine prev attr).

(* builder::Flattened: state = prev_attributes *)
Definition fb_step (prev : list A) (o : fop) : list A * list fcall :=
  match o with
  | FBegin p a => (a, [CBegin p a])                 (* records the first endpoint's attributes *)
  | FLine p a => (a, [CLine p a])
  | FCurve pts to a => (a, map (fun pt => CLine (fst pt) (interp prev a (snd pt))) pts)
  | FEnd c => (prev, [CEnd c])
  end.
Fixpoint fb_run (prev : list A) (ops : list fop) : list fcall :=
  match ops with
  | [] => []
  | o :: r => let '(prev', cs) := fb_step prev o in cs ++ fb_run prev' r
  end.

(* iterator::Flattened on the events of the same program: positions only *)
Definition fi_step (o : fop) : list (option P) :=     (* Some p = a Line event ending at p *)
  match o with
  | FBegin p _ => [None]
  | FLine p _ => [Some p]
  | FCurve pts _ _ => map (fun pt => Some (fst pt)) pts
  | FEnd _ => [None]
  end.
Definition fi_run (ops : list fop) : list (option P) := flat_map fi_step ops.

End Flatten.
