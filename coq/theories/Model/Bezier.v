(* Model of the pure curve algebra of lyon_geom over exact rationals:
     line.rs            LineSegment::{sample,x,y,flip,split_range,split,before_split,after_split,transformed}
     quadratic_bezier.rs QuadraticBezierSegment::{sample,x,y,derivative,dx,dy,flip,split_range,split,
                        before_split,after_split,to_cubic,transformed,
                        local_{x,y}_extremum_t,{x,y}_{minimum,maximum}_t,bounding_range_{x,y},
                        fast_bounding_range_{x,y},for_each_monotonic_range,for_each_monotonic}
     cubic_bezier.rs    CubicBezierSegment::{sample,x,y,derivative,flip,split_range,split,before_split,
                        after_split,to_quadratic,transformed,for_each_local_extremum}
   Every definition follows the operation order of the Rust source.  Arithmetic is
   rational: rounding is outside the model (DESIGN.md section 3, regime E). *)
From Coq Require Import QArith Qminmax.
From LV Require Import Base.Prelude.
Open Scope Q_scope.

Definition qpt := (Q * Q)%type.

Definition px (p : qpt) : Q := fst p.
Definition py (p : qpt) : Q := snd p.
Definition padd (a b : qpt) : qpt := (px a + px b, py a + py b).
Definition psub (a b : qpt) : qpt := (px a - px b, py a - py b).
Definition pscale (a : qpt) (k : Q) : qpt := (px a * k, py a * k).
Definition pdiv (a : qpt) (k : Q) : qpt := (px a / k, py a / k).
(* euclid Point2D::lerp: one_t * self + t * other *)
Definition plerp (a b : qpt) (t : Q) : qpt :=
  ((1 - t) * px a + t * px b, (1 - t) * py a + t * py b).
Definition peq (a b : qpt) : Prop := px a == px b /\ py a == py b.
Definition peqb (a b : qpt) : bool := Qeq_bool (px a) (px b) && Qeq_bool (py a) (py b).
Infix "=p=" := peq (at level 70).

(* an affine map x' = a x + c y + e ; y' = b x + d y + f (euclid Transform2D row-vector convention:
   m11 m12 / m21 m22 / m31 m32) *)
Record affine := mkAff { m11 : Q; m12 : Q; m21 : Q; m22 : Q; m31 : Q; m32 : Q }.
Definition aff_apply (m : affine) (p : qpt) : qpt :=
  (px p * m11 m + py p * m21 m + m31 m, px p * m12 m + py p * m22 m + m32 m).

(* ------------------------------------------------------------------ line *)
Record lineseg := mkLine { l_from : qpt; l_to : qpt }.

Definition l_sample (l : lineseg) (t : Q) : qpt := plerp (l_from l) (l_to l) t.
Definition l_x (l : lineseg) (t : Q) : Q := px (l_from l) * (1 - t) + px (l_to l) * t.
Definition l_y (l : lineseg) (t : Q) : Q := py (l_from l) * (1 - t) + py (l_to l) * t.
Definition l_flip (l : lineseg) : lineseg := mkLine (l_to l) (l_from l).
Definition l_split_range (l : lineseg) (t0 t1 : Q) : lineseg :=
  mkLine (plerp (l_from l) (l_to l) t0) (plerp (l_from l) (l_to l) t1).
Definition l_split (l : lineseg) (t : Q) : lineseg * lineseg :=
  let s := l_sample l t in (mkLine (l_from l) s, mkLine s (l_to l)).
Definition l_before_split (l : lineseg) (t : Q) : lineseg := mkLine (l_from l) (l_sample l t).
Definition l_after_split (l : lineseg) (t : Q) : lineseg := mkLine (l_sample l t) (l_to l).
Definition l_transformed (m : affine) (l : lineseg) : lineseg :=
  mkLine (aff_apply m (l_from l)) (aff_apply m (l_to l)).
Definition l_derivative (l : lineseg) : qpt := psub (l_to l) (l_from l).
Definition l_square_length (l : lineseg) : Q :=
  let v := psub (l_to l) (l_from l) in px v * px v + py v * py v.

(* ------------------------------------------------------------- quadratic *)
Record quad := mkQuad { q_from : qpt; q_ctrl : qpt; q_to : qpt }.

Definition q_sample (c : quad) (t : Q) : qpt :=
  let t2 := t * t in
  let one_t := 1 - t in
  let one_t2 := one_t * one_t in
  padd (padd (pscale (q_from c) one_t2)
             (pscale (pscale (pscale (q_ctrl c) 2) one_t) t))
       (pscale (q_to c) t2).

Definition q_coord (f c0 t_ : Q) (t : Q) : Q :=
  let t2 := t * t in
  let one_t := 1 - t in
  let one_t2 := one_t * one_t in
  f * one_t2 + c0 * 2 * one_t * t + t_ * t2.
Definition q_x (c : quad) (t : Q) : Q := q_coord (px (q_from c)) (px (q_ctrl c)) (px (q_to c)) t.
Definition q_y (c : quad) (t : Q) : Q := q_coord (py (q_from c)) (py (q_ctrl c)) (py (q_to c)) t.

Definition q_derivative (c : quad) (t : Q) : qpt :=
  let c0 := 2 * t - 2 in
  let c1 := - (4) * t + 2 in
  let c2 := 2 * t in
  padd (padd (pscale (q_from c) c0) (pscale (q_ctrl c) c1)) (pscale (q_to c) c2).

Definition q_flip (c : quad) : quad := mkQuad (q_to c) (q_ctrl c) (q_from c).

Definition q_split_range (c : quad) (t0 t1 : Q) : quad :=
  let from := q_sample c t0 in
  let to := q_sample c t1 in
  let ctrl := padd from
                (pscale (plerp (psub (q_ctrl c) (q_from c)) (psub (q_to c) (q_ctrl c)) t0) (t1 - t0)) in
  mkQuad from ctrl to.

Definition q_split (c : quad) (t : Q) : quad * quad :=
  let s := q_sample c t in
  (mkQuad (q_from c) (plerp (q_from c) (q_ctrl c) t) s,
   mkQuad s (plerp (q_ctrl c) (q_to c) t) (q_to c)).
Definition q_before_split (c : quad) (t : Q) : quad :=
  mkQuad (q_from c) (plerp (q_from c) (q_ctrl c) t) (q_sample c t).
Definition q_after_split (c : quad) (t : Q) : quad :=
  mkQuad (q_sample c t) (plerp (q_ctrl c) (q_to c) t) (q_to c).

Definition q_transformed (m : affine) (c : quad) : quad :=
  mkQuad (aff_apply m (q_from c)) (aff_apply m (q_ctrl c)) (aff_apply m (q_to c)).

(* ----------------------------------------------------------------- cubic *)
Record cubic := mkCubic { c_from : qpt; c_ctrl1 : qpt; c_ctrl2 : qpt; c_to : qpt }.

Definition c_sample (c : cubic) (t : Q) : qpt :=
  let t2 := t * t in
  let t3 := t2 * t in
  let one_t := 1 - t in
  let one_t2 := one_t * one_t in
  let one_t3 := one_t2 * one_t in
  padd (padd (padd (pscale (c_from c) one_t3)
                   (pscale (pscale (pscale (c_ctrl1 c) 3) one_t2) t))
             (pscale (pscale (pscale (c_ctrl2 c) 3) one_t) t2))
       (pscale (c_to c) t3).

Definition c_coord (p0 p1 p2 p3 t : Q) : Q :=
  let t2 := t * t in
  let t3 := t2 * t in
  let one_t := 1 - t in
  let one_t2 := one_t * one_t in
  let one_t3 := one_t2 * one_t in
  p0 * one_t3 + p1 * 3 * one_t2 * t + p2 * 3 * one_t * t2 + p3 * t3.
Definition c_x (c : cubic) (t : Q) : Q :=
  c_coord (px (c_from c)) (px (c_ctrl1 c)) (px (c_ctrl2 c)) (px (c_to c)) t.
Definition c_y (c : cubic) (t : Q) : Q :=
  c_coord (py (c_from c)) (py (c_ctrl1 c)) (py (c_ctrl2 c)) (py (c_to c)) t.

Definition c_derivative (c : cubic) (t : Q) : qpt :=
  let t2 := t * t in
  let c0 := - (3) * t2 + 6 * t - 3 in
  let c1 := 9 * t2 - 12 * t + 3 in
  let c2 := - (9) * t2 + 6 * t in
  let c3 := 3 * t2 in
  padd (padd (padd (pscale (c_from c) c0) (pscale (c_ctrl1 c) c1)) (pscale (c_ctrl2 c) c2))
       (pscale (c_to c) c3).

Definition c_flip (c : cubic) : cubic := mkCubic (c_to c) (c_ctrl2 c) (c_ctrl1 c) (c_from c).

Definition c_split_range (c : cubic) (t0 t1 : Q) : cubic :=
  let from := c_sample c t0 in
  let to := c_sample c t1 in
  let d := mkQuad (psub (c_ctrl1 c) (c_from c)) (psub (c_ctrl2 c) (c_ctrl1 c)) (psub (c_to c) (c_ctrl2 c)) in
  let dt := t1 - t0 in
  let ctrl1 := padd from (pscale (q_sample d t0) dt) in
  let ctrl2 := psub to (pscale (q_sample d t1) dt) in
  mkCubic from ctrl1 ctrl2 to.

Definition c_split (c : cubic) (t : Q) : cubic * cubic :=
  let ctrl1a := padd (c_from c) (pscale (psub (c_ctrl1 c) (c_from c)) t) in
  let ctrl2a := padd (c_ctrl1 c) (pscale (psub (c_ctrl2 c) (c_ctrl1 c)) t) in
  let ctrl1aa := padd ctrl1a (pscale (psub ctrl2a ctrl1a) t) in
  let ctrl3a := padd (c_ctrl2 c) (pscale (psub (c_to c) (c_ctrl2 c)) t) in
  let ctrl2aa := padd ctrl2a (pscale (psub ctrl3a ctrl2a) t) in
  let ctrl1aaa := padd ctrl1aa (pscale (psub ctrl2aa ctrl1aa) t) in
  (mkCubic (c_from c) ctrl1a ctrl1aa ctrl1aaa,
   mkCubic ctrl1aaa ctrl2aa ctrl3a (c_to c)).
Definition c_before_split (c : cubic) (t : Q) : cubic := fst (c_split c t).
Definition c_after_split (c : cubic) (t : Q) : cubic := snd (c_split c t).

Definition c_transformed (m : affine) (c : cubic) : cubic :=
  mkCubic (aff_apply m (c_from c)) (aff_apply m (c_ctrl1 c)) (aff_apply m (c_ctrl2 c)) (aff_apply m (c_to c)).

(* degree elevation: QuadraticBezierSegment::to_cubic *)
Definition q_to_cubic (c : quad) : cubic :=
  mkCubic (q_from c)
          (pdiv (padd (q_from c) (pscale (q_ctrl c) 2)) 3)
          (pdiv (padd (q_to c) (pscale (q_ctrl c) 2)) 3)
          (q_to c).

(* CubicBezierSegment::to_quadratic *)
Definition c_to_quadratic (c : cubic) : quad :=
  let c1 := pscale (psub (pscale (c_ctrl1 c) 3) (c_from c)) (1 # 2) in
  let c2 := pscale (psub (pscale (c_ctrl2 c) 3) (c_to c)) (1 # 2) in
  mkQuad (c_from c) (pscale (padd c1 c2) (1 # 2)) (c_to c).

(* ------------------------------------------------- quadratic: extrema (C11) *)

Definition Qltb (a b : Q) : bool := negb (Qle_bool b a).

(* local_{x,y}_extremum_t on one coordinate *)
Definition q_local_extremum (f c0 t_ : Q) : option Q :=
  let div := f - 2 * c0 + t_ in
  if Qeq_bool div 0 then None
  else let t := (f - c0) / div in
       if Qltb 0 t && Qltb t 1 then Some t else None.

Definition q_maximum_t (f c0 t_ : Q) : Q :=
  match q_local_extremum f c0 t_ with
  | Some t => let v := q_coord f c0 t_ t in
              if Qltb f v && Qltb t_ v then t
              else if Qltb t_ f then 0 else 1
  | None => if Qltb t_ f then 0 else 1
  end.
Definition q_minimum_t (f c0 t_ : Q) : Q :=
  match q_local_extremum f c0 t_ with
  | Some t => let v := q_coord f c0 t_ t in
              if Qltb v f && Qltb v t_ then t
              else if Qltb f t_ then 0 else 1
  | None => if Qltb f t_ then 0 else 1
  end.

Definition q_bounding_range (f c0 t_ : Q) : Q * Q :=
  (q_coord f c0 t_ (q_minimum_t f c0 t_), q_coord f c0 t_ (q_maximum_t f c0 t_)).
Definition q_fast_bounding_range (f c0 t_ : Q) : Q * Q :=
  (Qmin (Qmin f c0) t_, Qmax (Qmax f c0) t_).

Definition q_bounding_range_x (c : quad) := q_bounding_range (px (q_from c)) (px (q_ctrl c)) (px (q_to c)).
Definition q_bounding_range_y (c : quad) := q_bounding_range (py (q_from c)) (py (q_ctrl c)) (py (q_to c)).
Definition q_local_x_extremum_t (c : quad) := q_local_extremum (px (q_from c)) (px (q_ctrl c)) (px (q_to c)).
Definition q_local_y_extremum_t (c : quad) := q_local_extremum (py (q_from c)) (py (q_ctrl c)) (py (q_to c)).

(* for_each_monotonic_range: the list of (start, end) handed to the callback *)
Definition q_monotonic_ranges (c : quad) : list (Q * Q) :=
  let t0 := q_local_x_extremum_t c in
  let t1 := q_local_y_extremum_t c in
  let swap := match t0, t1 with Some tx, Some ty => Qltb ty tx | _, _ => false end in
  let '(t0, t1) := if swap then (t1, t0) else (t0, t1) in
  let '(l1, start1) := match t0 with Some t => ([(0, t)], t) | None => ([], 0) end in
  let '(l2, start2) := match t1 with
                       | Some t => if Qeq_bool t start1 then ([], start1) else ([(start1, t)], t)
                       | None => ([], start1) end in
  l1 ++ l2 ++ [(start2, 1)].

(* for_each_monotonic: split_range + clamp of the control point *)
Definition clampq (v lo hi : Q) : Q := Qmin (Qmax v lo) hi.
Definition q_monotonic_pieces (c : quad) : list quad :=
  map (fun r =>
         let sub := q_split_range c (fst r) (snd r) in
         let min_x := Qmin (px (q_from sub)) (px (q_to sub)) in
         let max_x := Qmax (px (q_from sub)) (px (q_to sub)) in
         let min_y := Qmin (py (q_from sub)) (py (q_to sub)) in
         let max_y := Qmax (py (q_from sub)) (py (q_to sub)) in
         mkQuad (q_from sub)
                (clampq (px (q_ctrl sub)) min_x max_x, clampq (py (q_ctrl sub)) min_y max_y)
                (q_to sub))
      (q_monotonic_ranges c).

(* ----------------------------------------- cubic: local extrema (C11)
   for_each_local_extremum with the square root supplied by an oracle
   [sq : Q -> Q] (Section hypothesis in the proofs: sq d * sq d == d, 0 <= sq d) *)
Definition c_local_extrema (sq : Q -> Q) (p0 p1 p2 p3 : Q) : list Q :=
  let a := 3 * (p3 + 3 * (p1 - p2) - p0) in
  let b := 6 * (p2 - 2 * p1 + p0) in
  let c := 3 * (p1 - p0) in
  let in_range t := Qltb 0 t && Qltb t 1 in
  if Qeq_bool a 0 then
    if negb (Qeq_bool b 0) then
      let t := - c / b in if in_range t then [t] else []
    else []
  else
    let disc := b * b - 4 * a * c in
    if Qltb disc 0 then []
    else if Qeq_bool disc 0 then
      let t := - b / (2 * a) in if in_range t then [t] else []
    else
      let s := sq disc in
      (* numerically stable form: -b and the square root are never subtracted from one another *)
      let sign_b := if Qle_bool 0 b then 1 else - (1) in
      let q := - (1 # 2) * (b + sign_b * s) in
      let e1 := q / a in
      let e2 := c / q in
      let '(e1, e2) := if Qltb e2 e1 then (e2, e1) else (e1, e2) in
      (if in_range e1 then [e1] else []) ++ (if in_range e2 then [e2] else []).

(* CubicBezierSegment::{x,y}_{minimum,maximum}_t and bounding_range_{x,y} on one coordinate *)
Definition c_maximum_t (sq : Q -> Q) (p0 p1 p2 p3 : Q) : Q :=
  let init := if Qltb p0 p3 then (1, p3) else (0, p0) in
  fst (fold_left (fun (acc : Q * Q) t =>
                    let v := c_coord p0 p1 p2 p3 t in
                    if Qltb (snd acc) v then (t, v) else acc)
                 (c_local_extrema sq p0 p1 p2 p3) init).
Definition c_minimum_t (sq : Q -> Q) (p0 p1 p2 p3 : Q) : Q :=
  let init := if Qltb p3 p0 then (1, p3) else (0, p0) in
  fst (fold_left (fun (acc : Q * Q) t =>
                    let v := c_coord p0 p1 p2 p3 t in
                    if Qltb v (snd acc) then (t, v) else acc)
                 (c_local_extrema sq p0 p1 p2 p3) init).
Definition c_bounding_range (sq : Q -> Q) (p0 p1 p2 p3 : Q) : Q * Q :=
  (c_coord p0 p1 p2 p3 (c_minimum_t sq p0 p1 p2 p3), c_coord p0 p1 p2 p3 (c_maximum_t sq p0 p1 p2 p3)).
Definition c_fast_bounding_range (p0 p1 p2 p3 : Q) : Q * Q :=
  (Qmin (Qmin (Qmin p0 p1) p2) p3, Qmax (Qmax (Qmax p0 p1) p2) p3).

(* derivative of one coordinate, as the polynomial whose roots for_each_local_extremum solves *)
Definition c_dpoly (p0 p1 p2 p3 t : Q) : Q :=
  3 * (p3 + 3 * (p1 - p2) - p0) * t * t + 6 * (p2 - 2 * p1 + p0) * t + 3 * (p1 - p0).
Definition q_dcoord (f c0 t_ t : Q) : Q := f * (2 * t - 2) + c0 * (- (4) * t + 2) + t_ * (2 * t).
