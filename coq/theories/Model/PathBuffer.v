(* Model of crates/path/src/path_buffer.rs : `PathBuffer`, a container that
   stores many paths contiguously in one shared point vector and one shared
   verb vector.  Executable definitions only; statement-by-statement port.

   Modelled items (Rust):
     PathDescriptor, PathBuffer::{new,get,indices,iter,len,is_empty,clear}
     PathBufferSlice::{get,indices,iter,len}  (same code as PathBuffer's)
     Builder::{new,with_attributes,begin,end,line_to,quadratic_bezier_to,
               cubic_bezier_to,adjust_id,build}
     BuilderWithAttributes::{new,begin,...,adjust_id,build}
     Iter::{next,next_back}, FromIterator<PathSlice>::from_iter

   The inner builder is the path.rs builder of Model/PathStore.v ([bstate],
   [b_step]); it is run on the SHARED vectors: `Builder::new` swaps the
   buffer's `points` / `verbs` into a fresh `path::Builder`, so the inner
   builder starts from the buffer's current storage (not from empty vectors)
   with its own fresh `first` / `first_attributes` fields.  The ids the inner
   builder returns are `points.len()` of the shared vector, i.e. absolute
   positions; `adjust_id` subtracts `points_start`.

   Integer widths: `points_start`, `verbs_start`, the descriptor fields and
   `EndpointId` are u32 in Rust (`len() as u32` truncates silently); the model
   uses [nat], i.e. it covers buffers with fewer than 2^32 points and verbs. *)
From LV Require Import Base.Prelude Model.PathStore.

(* struct PathDescriptor { points: (u32, u32), verbs: (u32, u32), num_attributes: u32 } *)
Record pdesc := mkDesc { d_points : nat * nat; d_verbs : nat * nat; d_nattr : nat }.

(* struct PathBuffer { points, verbs, paths } *)
Record pbuf := mkPbuf { pb_points : list pt; pb_verbs : list verb; pb_paths : list pdesc }.

(* PathBuffer::new *)
Definition pb_new : pbuf := mkPbuf [] [] [].

(* PathBuffer::clear *)
Definition pb_clear (b : pbuf) : pbuf := mkPbuf [] [] [].

(* PathBuffer::len / is_empty / indices *)
Definition pb_len (b : pbuf) : nat := length (pb_paths b).
Definition pb_is_empty (b : pbuf) : bool := match pb_paths b with [] => true | _ => false end.
Definition pb_indices (b : pbuf) : list nat := seq 0 (length (pb_paths b)).

(* slice indexing  &v[start..end] : panics ([None]) when start > end or end > len *)
Definition slice {A} (l : list A) (r : nat * nat) : option (list A) :=
  if Nat.leb (fst r) (snd r) && Nat.leb (snd r) (length l)
  then Some (firstn (snd r - fst r) (skipn (fst r) l))
  else None.

(* the PathSlice { points: &points[..], verbs: &verbs[..], num_attributes } of a descriptor *)
Definition pb_slice_of (b : pbuf) (d : pdesc) : option path :=
  do pts <- slice (pb_points b) (d_points d);
  do vs <- slice (pb_verbs b) (d_verbs d);
  Some (mkPath pts vs (d_nattr d)).

(* PathBuffer::get / PathBufferSlice::get ;  [None] = index panic *)
Definition pb_get (b : pbuf) (i : nat) : option path :=
  do d <- nth_error (pb_paths b) i;
  pb_slice_of b d.

(* Iter::next repeated to exhaustion (one entry per call; [None] entry = panic
   in that call).  Iter::next_back yields the same items from the other end. *)
Definition pb_iter (b : pbuf) : list (option path) := map (pb_slice_of b) (pb_paths b).
Definition pb_iter_back (b : pbuf) : list (option path) := map (pb_slice_of b) (rev (pb_paths b)).

(* ------------------------------------------------------------- builders *)

(* struct Builder / BuilderWithAttributes { buffer, builder, points_start, verbs_start }.
   [bb_buffer] is the borrowed buffer as it is WHILE the builder is alive: its
   point and verb vectors have been swapped out.  [bb_nattr] is
   `builder.num_attributes` (0 for the plain Builder). *)
Record pbuilder := mkPBuilder {
  bb_buffer : pbuf;
  bb_inner : bstate;
  bb_nattr : nat;
  bb_points_start : nat;
  bb_verbs_start : nat }.

(* Builder::new followed by with_attributes(n), or BuilderWithAttributes::new(buffer, n):
     let mut builder = path::Path::builder()...;          -- fresh: first = (0,0), first_attributes = [0; n]
     swap(&mut buffer.points, &mut builder.points);       -- builder gets the shared storage,
     swap(&mut buffer.verbs, &mut builder.verbs);         -- buffer is left with the fresh empty vectors
     points_start = builder.points.len(); verbs_start = builder.verbs.len() *)
Definition pbb_new (b : pbuf) (n : nat) : pbuilder :=
  let fresh := b_init n in
  let inner := mkB (pb_points b) (pb_verbs b) (b_first fresh) (b_first_attrs fresh) in
  mkPBuilder (mkPbuf (b_points fresh) (b_verbs fresh) (pb_paths b))
             inner n (length (b_points inner)) (length (b_verbs inner)).

(* adjust_id: id.0 -= points_start   (u32 subtraction; [adjust_id_ok] says it cannot underflow) *)
Definition adjust_id (points_start id : nat) : nat := id - points_start.
Definition adjust_id_ok (points_start id : nat) : bool := Nat.leb points_start id.

(* one call on the buffer builder: delegate to the inner builder, rebase the id.
   `end` returns (); like [b_step] the model reports 0 for it. *)
Definition pbb_step (bb : pbuilder) (o : bop) : pbuilder * nat :=
  let '(s', id) := b_step (bb_inner bb) o in
  (mkPBuilder (bb_buffer bb) s' (bb_nattr bb) (bb_points_start bb) (bb_verbs_start bb),
   match o with
   | OEnd _ => id
   | _ => adjust_id (bb_points_start bb) id
   end).

Fixpoint pbb_run (bb : pbuilder) (ops : list bop) : pbuilder * list nat :=
  match ops with
  | [] => (bb, [])
  | o :: r => let '(bb', id) := pbb_step bb o in
              let '(bb'', ids) := pbb_run bb' r in (bb'', id :: ids)
  end.

(* no call of adjust_id underflows during the run *)
Fixpoint pbb_ids_ok (bb : pbuilder) (ops : list bop) : bool :=
  match ops with
  | [] => true
  | o :: r => (match o with
               | OEnd _ => true
               | _ => adjust_id_ok (bb_points_start bb) (snd (b_step (bb_inner bb) o))
               end)
              && pbb_ids_ok (fst (pbb_step bb o)) r
  end.

(* BuilderWithAttributes::build (current source):
     points_end = builder.points.len(); verbs_end = builder.verbs.len();
     swap back; index = buffer.paths.len();
     push PathDescriptor { (points_start, points_end), (verbs_start, verbs_end), builder.num_attributes } *)
Definition pbb_build (bb : pbuilder) : pbuf * nat :=
  let points_end := length (b_points (bb_inner bb)) in
  let verbs_end := length (b_verbs (bb_inner bb)) in
  let index := length (pb_paths (bb_buffer bb)) in
  (mkPbuf (b_points (bb_inner bb)) (b_verbs (bb_inner bb))
          (pb_paths (bb_buffer bb)
           ++ [mkDesc (bb_points_start bb, points_end) (bb_verbs_start bb, verbs_end) (bb_nattr bb)]),
   index).

(* Builder::build (plain builder): same, with the literal `num_attributes: 0` *)
Definition pbb_build_plain (bb : pbuilder) : pbuf * nat :=
  let points_end := length (b_points (bb_inner bb)) in
  let verbs_end := length (b_verbs (bb_inner bb)) in
  let index := length (pb_paths (bb_buffer bb)) in
  (mkPbuf (b_points (bb_inner bb)) (b_verbs (bb_inner bb))
          (pb_paths (bb_buffer bb)
           ++ [mkDesc (bb_points_start bb, points_end) (bb_verbs_start bb, verbs_end) 0]),
   index).

(* BuilderWithAttributes::build BEFORE /repo commit 47bb8790 wrote the literal 0
   too; kept to exhibit the defect that commit fixed. *)
Definition pbb_build_old := pbb_build_plain.

(* A builder dropped without calling build(): there is no Drop impl, so the
   vectors are never swapped back; the buffer keeps its descriptors and the
   fresh empty vectors. *)
Definition pbb_abandon (bb : pbuilder) : pbuf := bb_buffer bb.

(* One more path with [n] attributes through BuilderWithAttributes:
   new buffer, returned index, ids returned by the calls. *)
Definition pb_add (b : pbuf) (n : nat) (prog : list bop) : pbuf * nat * list nat :=
  let '(bb, ids) := pbb_run (pbb_new b n) prog in
  let '(b', index) := pbb_build bb in
  (b', index, ids).

Definition pb_add_old (b : pbuf) (n : nat) (prog : list bop) : pbuf * nat * list nat :=
  let '(bb, ids) := pbb_run (pbb_new b n) prog in
  let '(b', index) := pbb_build_old bb in
  (b', index, ids).

(* The plain Builder: its methods take no attributes (its PathBuilder impl
   ignores `_attributes`) and call the inner BuilderImpl, which is
   BuilderWithAttributes with 0 attributes. *)
Definition drop_attrs (o : bop) : bop :=
  match o with
  | OBegin p _ => OBegin p []
  | OLine p _ => OLine p []
  | OQuad c p _ => OQuad c p []
  | OCubic c1 c2 p _ => OCubic c1 c2 p []
  | OEnd c => OEnd c
  end.

Definition pb_add_plain (b : pbuf) (prog : list bop) : pbuf * nat * list nat :=
  let '(bb, ids) := pbb_run (pbb_new b 0) (map drop_attrs prog) in
  let '(b', index) := pbb_build_plain bb in
  (b', index, ids).

(* many paths, left to right; per path: (returned index, returned ids) *)
Fixpoint pb_add_all (b : pbuf) (l : list (nat * list bop)) : pbuf * list (nat * list nat) :=
  match l with
  | [] => (b, [])
  | (n, prog) :: r =>
      let '(b', index, ids) := pb_add b n prog in
      let '(b'', res) := pb_add_all b' r in
      (b'', (index, ids) :: res)
  end.

Definition pb_build_all (l : list (nat * list bop)) : pbuf * list (list nat) :=
  let '(b, res) := pb_add_all pb_new l in (b, map snd res).

Definition pb_build_indices (l : list (nat * list bop)) : list nat :=
  map fst (snd (pb_add_all pb_new l)).

(* the same with a choice of builder per path: [None] = plain Builder,
   [Some n] = builder().with_attributes(n) *)
Definition pb_add_kind (b : pbuf) (k : option nat) (prog : list bop) : pbuf * nat * list nat :=
  match k with
  | None => pb_add_plain b prog
  | Some n => pb_add b n prog
  end.

Fixpoint pb_add_all_kind (b : pbuf) (l : list (option nat * list bop)) : pbuf * list (nat * list nat) :=
  match l with
  | [] => (b, [])
  | (k, prog) :: r =>
      let '(b', index, ids) := pb_add_kind b k prog in
      let '(b'', res) := pb_add_all_kind b' r in
      (b'', (index, ids) :: res)
  end.

(* ------------------------------------------ FromIterator<PathSlice<'l>>
   fold(PathBuffer::new(), |buffer, path| {
       let builder = buffer.builder();
       path.iter().fold(builder, |b, event| { b.path_event(event, NO_ATTRIBUTES); b }).build();
       buffer })
   [None] = the path iterator read outside its storage. *)
Definition op_of_path_event (e : path_event) : bop :=
  match e with
  | EvBegin p => OBegin p []
  | EvLine _ p => OLine p []
  | EvQuad _ c p => OQuad c p []
  | EvCubic _ c1 c2 p => OCubic c1 c2 p []
  | EvEnd _ _ c => OEnd c
  end.

Fixpoint pb_extend_from_iter (b : pbuf) (ps : list path) : option pbuf :=
  match ps with
  | [] => Some b
  | p :: r =>
      do evs <- iter p;
      pb_extend_from_iter (fst (fst (pb_add_plain b (map op_of_path_event evs)))) r
  end.

Definition pb_from_iter (ps : list path) : option pbuf := pb_extend_from_iter pb_new ps.
