(* Model of crates/algorithms/src/{hit_test,area,winding}.rs for polygonal paths over exact rationals:
     test_segment, path_winding_number_at_position, hit_test_path,
     approximate_sub_path_signed_area (on already-flat input), compute_winding,
   plus the rectangle point orders of PathBuilder::add_rectangle,
   and the SPECIFICATION of the winding number as a crossing sum ([wn]) that the fill
   checker (C01) uses as well. *)
From Coq Require Import QArith Qminmax.
From LV Require Import Base.Prelude Model.Bezier.
Open Scope Q_scope.

(* a polygonal sub-path: first point, then the line_to points; implicitly closed by the End edge *)
Definition subpoly := (qpt * list qpt)%type.
Definition polypath := list subpoly.

Fixpoint chain_edges (cur : qpt) (pts : list qpt) (first : qpt) : list (qpt * qpt) :=
  match pts with
  | [] => [(cur, first)]                       (* PathEvent::End { last, first } *)
  | p :: r => (cur, p) :: chain_edges p r first
  end.
Definition sub_edges (s : subpoly) : list (qpt * qpt) := chain_edges (fst s) (snd s) (fst s).
Definition path_edges (p : polypath) : list (qpt * qpt) := flat_map sub_edges p.

(* ---- hit_test.rs ---- *)
Definition test_segment (p a b : qpt) (w : Z) : Z :=
  let y0 := py a in
  let y1 := py b in
  let min_y := Qmin y0 y1 in
  let max_y := Qmax y0 y1 in
  if Qltb (py p) min_y || Qle_bool max_y (py p) || Qltb (px p) (Qmin (px a) (px b)) then w
  else if Qeq_bool y0 y1 then w
  else
    let d := y1 - y0 in
    let t := (py p - y0) / d in
    let x := px (l_sample (mkLine a b) t) in
    if Qltb (px p) x then w
    else (w + (if Qltb 0 d then 1 else -1))%Z.

Definition path_winding (p : qpt) (path : polypath) : Z :=
  fold_left (fun w e => test_segment p (fst e) (snd e) w) (path_edges path) 0%Z.

Inductive fill_rule := EvenOdd | NonZero.
(* Rust: winding % 2 != 0 (truncated remainder) / winding != 0 *)
Definition is_in (r : fill_rule) (w : Z) : bool :=
  match r with
  | EvenOdd => negb (Z.rem w 2 =? 0)%Z
  | NonZero => negb (w =? 0)%Z
  end.
Definition hit_test (p : qpt) (path : polypath) (r : fill_rule) : bool := is_in r (path_winding p path).

(* ---- the specification: signed crossing number of a horizontal ray to the left ---- *)
Definition x_at (a b : qpt) (y : Q) : Q := px a + (y - py a) * (px b - px a) / (py b - py a).
Definition edge_wn (p a b : qpt) : Z :=
  if Qle_bool (py a) (py p) && Qltb (py p) (py b) && Qltb (x_at a b (py p)) (px p) then 1%Z
  else if Qle_bool (py b) (py p) && Qltb (py p) (py a) && Qltb (x_at a b (py p)) (px p) then (-1)%Z
  else 0%Z.
Definition wn (p : qpt) (edges : list (qpt * qpt)) : Z :=
  fold_right (fun e acc => (edge_wn p (fst e) (snd e) + acc)%Z) 0%Z edges.
Definition on_edge (p a b : qpt) : Prop :=
  exists t, 0 <= t /\ t <= 1 /\ l_sample (mkLine a b) t =p= p.
Definition off_outline (p : qpt) (edges : list (qpt * qpt)) : Prop :=
  forall e, In e edges -> ~ on_edge p (fst e) (snd e).

(* ---- area.rs / winding.rs on flat input ---- *)
(* fan from the first point: returns twice the signed area *)
Fixpoint fan_double_area (first v0 : qpt) (pts : list qpt) : Q :=
  match pts with
  | [] => 0                                    (* End: v1 = last - first = v0, cross v0 v0 = 0 is added below *)
  | p :: r => let v1 := psub p first in
              (px v0 * py v1 - py v0 * px v1) + fan_double_area first v1 r
  end.
Definition last_vec (first : qpt) (pts : list qpt) : qpt := psub (last pts first) first.
Definition sub_signed_area (s : subpoly) : Q :=
  let first := fst s in
  let lv := last_vec first (snd s) in
  (fan_double_area first (0, 0) (snd s) + (px lv * py lv - py lv * px lv)) * (1 # 2).
Definition signed_area (p : polypath) : Q := fold_right (fun s acc => sub_signed_area s + acc) 0 p.

Inductive winding := Positive | Negative.
Definition compute_winding (s : subpoly) : winding :=
  if Qltb 0 (sub_signed_area s * 2) then Positive else Negative.

(* shoelace sum over the closed polygon first :: pts *)
Definition shoelace2 (edges : list (qpt * qpt)) : Q :=
  fold_right (fun e acc => (px (fst e) * py (snd e) - px (snd e) * py (fst e)) + acc) 0 edges.

Definition rev_sub (s : subpoly) : subpoly := (fst s, rev (snd s)).

(* PathBuilder::add_rectangle point orders *)
Definition rect_points (minp maxp : qpt) (w : winding) : subpoly :=
  match w with
  | Positive => (minp, [(px maxp, py minp); maxp; (px minp, py maxp)])
  | Negative => (minp, [(px minp, py maxp); maxp; (px maxp, py minp)])
  end.
