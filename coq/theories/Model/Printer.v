(* Model of the printer used for the round trip of C17: crates/path/src/path.rs,
   impl Debug for PathSlice (without the enclosing quotes, which the round trip strips):
     Begin      ->  " M" point attributes
     Line       ->  " L" point attributes
     Quadratic  ->  " Q" ctrl point attributes
     Cubic      ->  " C" ctrl1 ctrl2 point attributes
     End{close} ->  " Z" when closed, nothing otherwise
   where a number is written as a space followed by its text ({:?} of an f32: the Section
   parameter [fmt]).  The events of a stored path are represented by the builder calls that
   re-create it (Model/Parser.v: pcall). *)
From LV Require Import Base.Prelude Model.Parser.
Open Scope Z_scope.

Section Printer.
Variable F : Type.
Variable fmt : F -> list Z.

Definition pr_num (v : F) : list Z := 32 :: fmt v.
Definition pr_point (p : F * F) : list Z := pr_num (fst p) ++ pr_num (snd p).
Definition pr_attrs (a : list F) : list Z := flat_map pr_num a.

Definition pr_call (c : pcall F) : list Z :=
  match c with
  | PBegin _ p a => [32; 77] ++ pr_point p ++ pr_attrs a
  | PLine _ p a => [32; 76] ++ pr_point p ++ pr_attrs a
  | PQuad _ c p a => [32; 81] ++ pr_point c ++ pr_point p ++ pr_attrs a
  | PCubic _ c1 c2 p a => [32; 67] ++ pr_point c1 ++ pr_point c2 ++ pr_point p ++ pr_attrs a
  | PEnd _ true => [32; 90]
  | PEnd _ false => []
  end.

Definition print (calls : list (pcall F)) : list Z := flat_map pr_call calls.

(* the numbers of a call, in printing order, and its attribute count *)
Definition call_nums (c : pcall F) : list F :=
  match c with
  | PBegin _ p a | PLine _ p a => [fst p; snd p] ++ a
  | PQuad _ c p a => [fst c; snd c; fst p; snd p] ++ a
  | PCubic _ c1 c2 p a => [fst c1; snd c1; fst c2; snd c2; fst p; snd p] ++ a
  | PEnd _ _ => []
  end.
Definition call_attrs_len (c : pcall F) : option nat :=
  match c with
  | PBegin _ _ a | PLine _ _ a | PQuad _ _ _ a | PCubic _ _ _ _ a => Some (length a)
  | PEnd _ _ => None
  end.

End Printer.

(* the shape of a number text the lexer (parse_number) consumes entirely and stops after:
   [-] digits* [. digits*] [(e|E) [-] digits*], non-empty *)
Definition is_digit (c : Z) : bool := (48 <=? c) && (c <=? 57).
Fixpoint drop_digits (l : list Z) : list Z :=
  match l with
  | c :: r => if is_digit c then drop_digits r else l
  | [] => []
  end.
Definition num_shape (l : list Z) : bool :=
  match l with
  | [] => false
  | _ =>
    let l1 := match l with 45 :: r => r | _ => l end in
    let l2 := drop_digits l1 in
    let l3 := match l2 with 46 :: r => drop_digits r | _ => l2 end in
    let l4 := match l3 with
              | c :: r => if (c =? 101) || (c =? 69)
                          then drop_digits (match r with 45 :: q => q | _ => r end)
                          else l3
              | [] => []
              end in
    match l4 with [] => true | _ => false end
  end.
