(* C12 - QuadraticBezierSegment::line_intersections_t (quadratic_bezier.rs), statement by statement, over the rationals
   with a square-root oracle [sq].  The line is given by its equation ea x + eb y + ec = 0 (Line::equation()).

   Float special cases are written out, because Coq's x / 0 = 0 is not what the code does:
     - a = 0, b = 0: the code's t = -c / b is infinite or NaN, no comparison holds; it falls through to the quadratic
       branch where t1 = (…) / (2a) is NaN or infinite and t2 = c / (a t1) is NaN: nothing is reported;
     - a = 0, b <> 0, t outside [0, 1]: falls through likewise (t1 infinite, t2 NaN): nothing is reported;
     - a <> 0 and t1 = 0 (only when b = 0 and delta = 0, hence c = 0): t2 = 0 / 0 = NaN is not reported, t1 = 0 is. *)
From Coq Require Import QArith Qabs.
From LV Require Import Base.Prelude Model.Bezier Model.LineInter.
Open Scope Q_scope.

Definition in01 (t : Q) : bool := Qle_bool 0 t && Qle_bool t 1.

(* coefficients of  a t^2 + b t + c  =  ea x(t) + eb y(t) + ec *)
Definition q_line_poly (c : quad) (ea eb ec : Q) : Q * Q * Q :=
  let i := ea * px (q_from c) + eb * py (q_from c) in
  let j := ea * px (q_ctrl c) + eb * py (q_ctrl c) in
  let k := ea * px (q_to c) + eb * py (q_to c) in
  (i - j - j + k, j + j - i - i, i + ec).

Definition q_line_delta (c : quad) (ea eb ec : Q) : Q :=
  let '(a, b, cc) := q_line_poly c ea eb ec in b * b - 4 * a * cc.

(* [linear_root b c]: the root the code computes when a = 0.  The repaired code uses - c / b; the pinned code used
   c / b (kept below as [q_line_intersections_t_pinned] for the refutation). *)
Definition q_line_intersections_gen (lin : Q -> Q -> Q) (sq : Q -> Q) (c : quad) (ea eb ec : Q) : list Q :=
  let '(a, b, cc) := q_line_poly c ea eb ec in
  if Qeq_bool a 0 then
    if Qeq_bool b 0 then []
    else let t := lin b cc in if in01 t then [t] else []
  else
    let delta := b * b - 4 * a * cc in
    if Qle_bool 0 delta then
      let sd := sq delta in
      let s := - (qsignum b) * sd in
      let t1 := (- b + s) / (2 * a) in
      if Qeq_bool t1 0 then [0]
      else
        let t2 := cc / (a * t1) in
        let lo := if Qltb t2 t1 then t2 else t1 in
        let hi := if Qltb t2 t1 then t1 else t2 in
        (if in01 lo then [lo] else [])
        ++ (if in01 hi && negb (Qeq_bool lo hi) then [hi] else [])
    else [].

Definition q_line_intersections_t := q_line_intersections_gen (fun b c => - c / b).
Definition q_line_intersections_t_pinned := q_line_intersections_gen (fun b c => c / b).

(* the specification vocabulary *)
Definition on_line (ea eb ec : Q) (p : qpt) : Prop := ea * px p + eb * py p + ec == 0.
Definition sqrt_ok_at (sq : Q -> Q) (d : Q) : Prop := 0 <= d -> 0 <= sq d /\ sq d * sq d == d.
