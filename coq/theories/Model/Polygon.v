(* C14, polygon views (crates/path/src/polygon.rs): a polygon is a list of points plus a closed flag;
   its events are Begin p0, a line per further point, End (last, first, closed); the empty polygon
   has no event.  [poly_event] is Polygon::event (random access by event id), [poly_id_events] the
   iteration of PolygonIdIter over the index range, resolved through the points. *)
From LV Require Import Base.Prelude Model.PathStore.

Definition pevent := event pt pt.

Fixpoint poly_lines (prev : pt) (rest : list pt) : list pevent :=
  match rest with
  | [] => []
  | p :: r => EvLine prev p :: poly_lines p r
  end.

(* Polygon::iter / path_events *)
Definition poly_events (pts : list pt) (closed : bool) : list pevent :=
  match pts with
  | [] => []
  | p0 :: rest => EvBegin p0 :: poly_lines p0 rest ++ [EvEnd (last pts p0) p0 closed]
  end.

Definition pnth (pts : list pt) (i : nat) : pt := nth i pts (0, 0)%Z.

(* Polygon::event(id), as fixed: End at index len *)
Definition poly_event (pts : list pt) (closed : bool) (idx : nat) : pevent :=
  if Nat.eqb idx 0 then EvBegin (pnth pts 0)
  else if Nat.eqb idx (length pts) then EvEnd (pnth pts (length pts - 1)) (pnth pts 0) closed
  else EvLine (pnth pts (idx - 1)) (pnth pts idx).

(* the comparison used before the fix: End at index len - 1 *)
Definition poly_event_old (pts : list pt) (closed : bool) (idx : nat) : pevent :=
  if Nat.eqb idx 0 then EvBegin (pnth pts 0)
  else if Nat.eqb idx (length pts - 1) then EvEnd (pnth pts (length pts - 1)) (pnth pts 0) closed
  else EvLine (pnth pts (idx - 1)) (pnth pts idx).

(* PolygonIdIter::next from index idx over 0..n (as fixed: nothing for an empty range), with fuel *)
Fixpoint poly_id_iter (fuel idx n : nat) (closed : bool) : list (event nat nat) :=
  match fuel with
  | O => []
  | S f =>
      if Nat.leb n 0 then []
      else if Nat.eqb idx 0 then EvBegin 0%nat :: poly_id_iter f (S idx) n closed
      else if Nat.ltb idx n then EvLine (idx - 1)%nat idx :: poly_id_iter f (S idx) n closed
      else if Nat.eqb idx n then [EvEnd (n - 1)%nat 0%nat closed]
      else []
  end.
Definition poly_id_events (pts : list pt) (closed : bool) : list pevent :=
  map (map_event (pnth pts) (pnth pts)) (poly_id_iter (S (S (length pts))) 0 (length pts) closed).
