(* C12 - lyon_geom::Triangle::{get_barycentric_coords_for_point, contains_point, ab … ac, intersects_line_segment}
   (triangle.rs), statement by statement over the rationals.

   Division by zero: for a degenerate triangle the code computes inv = 1 / 0 (an infinity), and a, b are then infinities or
   NaN (0 * inf); c = 1 - a - b is then NaN or an infinity of the opposite sign, so `a > 0 && b > 0 && c > 0` is false
   whatever the point.  Here 1 / 0 = 0 makes a = b = 0 and the test false as well: the model agrees with the code on
   degenerate triangles, for a different reason - stated as a theorem (tri_degenerate_contains_nothing) so that the
   coincidence is visible. *)
From Coq Require Import QArith.
From LV Require Import Base.Prelude Model.Bezier Model.LineInter.
Open Scope Q_scope.

Record tri := mkTri { t_a : qpt; t_b : qpt; t_c : qpt }.

Definition tri_det (t : tri) : Q := cross (psub (t_b t) (t_a t)) (psub (t_c t) (t_a t)).

Definition tri_bary (t : tri) (p : qpt) : Q * Q * Q :=
  let v0 := psub (t_b t) (t_a t) in
  let v1 := psub (t_c t) (t_a t) in
  let v2 := psub p (t_a t) in
  let inv := 1 / cross v0 v1 in
  let a := cross v0 v2 * inv in
  let b := cross v2 v1 * inv in
  let c := 1 - a - b in
  (a, b, c).

Definition tri_contains_point (t : tri) (p : qpt) : bool :=
  let coords := tri_bary t p in
  Qltb 0 (fst (fst coords)) && Qltb 0 (snd (fst coords)) && Qltb 0 (snd coords).

Definition tri_ab (t : tri) : lineseg := mkLine (t_a t) (t_b t).
Definition tri_bc (t : tri) : lineseg := mkLine (t_b t) (t_c t).
Definition tri_ac (t : tri) : lineseg := mkLine (t_a t) (t_c t).

Definition tri_intersects_line_segment (t : tri) (s : lineseg) : bool :=
  seg_intersects (tri_ab t) s || seg_intersects (tri_bc t) s || seg_intersects (tri_ac t) s
  || tri_contains_point t (l_from s).

(* specification vocabulary: p is the combination a + beta (b - a) + gamma (c - a) *)
Definition tri_point (t : tri) (beta gamma : Q) : qpt :=
  padd (t_a t) (padd (pscale (psub (t_b t) (t_a t)) beta) (pscale (psub (t_c t) (t_a t)) gamma)).
Definition strictly_inside (t : tri) (p : qpt) : Prop :=
  exists beta gamma, 0 < beta /\ 0 < gamma /\ beta + gamma < 1 /\ p =p= tri_point t beta gamma.
