(* Model of crates/extra/src/parser.rs : Source, PathParser::{parse, parse_path, parse_endpoint,
   parse_attributes, parse_point, parse_number, parse_flag, get_smooth_ctrl}.
   Characters are code points (Z).  The number type F, its arithmetic, the text -> number
   conversion (Rust's str::parse::<f32>) and the Unicode character classes are Section
   parameters, so the theorems hold for every instantiation; the correspondence run instantiates
   them with exactly-rounded f32 arithmetic on Q and class tables for the alphabet it uses.
   Every index into the attribute buffers is explicit ([nth_error]): an out-of-range index is the
   outcome [RPanic].  The geometry of the A command (is_straight_line, to_arc,
   for_each_quadratic_bezier_with_t) is an oracle stream consumed one answer per executed arc. *)
From LV Require Import Base.Prelude.
Open Scope Z_scope.

Section Parser.
Variable F : Type.
Variable fzero fone : F.
Variables fadd fsub fmul : F -> F -> F.
Variable parse_f32 : list Z -> option F.      (* float_buffer.parse::<f32>() *)
Variables is_ws is_num : Z -> bool.           (* char::is_whitespace, char::is_numeric *)

Definition fpt := (F * F)%type.

Inductive pcall :=
| PBegin (p : fpt) (a : list F) | PLine (p : fpt) (a : list F)
| PQuad (c p : fpt) (a : list F) | PCubic (c1 c2 p : fpt) (a : list F) | PEnd (close : bool).

Inductive perr :=
| ENumber (text : list Z) (line col : Z)
| EFlag (c : Z) (line col : Z)
| ECommand (c : Z) (line col : Z)
| EMissingMoveTo (c : Z) (line col : Z)
| EPanic                                      (* index out of bounds *)
| EFuel.                                      (* model fuel exhausted: excluded by theorem *)

Inductive result (A : Type) := Ok (a : A) | Err (e : perr).
Arguments Ok {A}. Arguments Err {A}.

(* ------------------------------------------------------------------ Source *)
Record source := mkSrc { sr_rest : list Z; sr_cur : Z; sr_line : Z; sr_col : Z; sr_fin : bool }.

Definition source_new (s : list Z) : source :=
  match s with
  | [] => mkSrc [] 32 0 0 true
  | c :: r => if c =? 10 then mkSrc r c 1 (-1) false else mkSrc r c 0 0 false
  end.

Definition advance_one (s : source) : source :=
  if sr_fin s then s
  else match sr_rest s with
       | c :: r => if c =? 10 then mkSrc r 10 (sr_line s + 1) (-1) false
                   else mkSrc r c (sr_line s) (sr_col s + 1) false
       | [] => mkSrc [] 126 (sr_line s) (sr_col s) true
       end.

Fixpoint skip_ws_go (fuel : nat) (s : source) : source :=
  match fuel with
  | O => s
  | S f => if negb (sr_fin s) && (is_ws (sr_cur s) || (sr_cur s =? 44))
           then skip_ws_go f (advance_one s) else s
  end.
Definition skip_whitespace (s : source) : source := skip_ws_go (S (length (sr_rest s))) s.

(* while src.current.is_numeric() { push; advance } *)
Fixpoint take_num_go (fuel : nat) (s : source) (buf : list Z) : source * list Z :=
  match fuel with
  | O => (s, buf)
  | S f => if is_num (sr_cur s) then take_num_go f (advance_one s) (buf ++ [sr_cur s]) else (s, buf)
  end.
Definition take_num (s : source) (buf : list Z) := take_num_go (S (length (sr_rest s))) s buf.

Definition parse_number (s0 : source) : result (F * source) :=
  let s := skip_whitespace s0 in
  let line := sr_line s in
  let col := sr_col s in
  let '(s, buf) := if sr_cur s =? 45 then (advance_one s, [45]) else (s, []) in
  let '(s, buf) := take_num s buf in
  let '(s, buf) :=
    if sr_cur s =? 46 then take_num (advance_one s) (buf ++ [46]) else (s, buf) in
  let '(s, buf) :=
    if (sr_cur s =? 101) || (sr_cur s =? 69) then
      let b := buf ++ [sr_cur s] in
      let s := advance_one s in
      let '(s, b) := if sr_cur s =? 45 then (advance_one s, b ++ [45]) else (s, b) in
      take_num s b
    else (s, buf) in
  match parse_f32 buf with
  | Some v => Ok (v, s)
  | None => Err (ENumber buf line col)
  end.

Definition parse_flag (s0 : source) : result (bool * source) :=
  let s := skip_whitespace s0 in
  if sr_cur s =? 49 then Ok (true, advance_one s)
  else if sr_cur s =? 48 then Ok (false, advance_one s)
  else Err (EFlag (sr_cur s) (sr_line s) (sr_col s)).

(* ------------------------------------------------------------- parser state *)
Record pstate := mkP {
  p_attr : list F;           (* self.attribute_buffer *)
  p_cur : fpt;               (* self.current_position *)
  p_need_end : bool;
  p_out : list pcall }.

Definition bind {A B} (r : result A) (k : A -> result B) : result B :=
  match r with Ok a => k a | Err e => Err e end.
Notation "'let?' x := e 'in' k" := (bind e (fun x => k)) (at level 200, x pattern, right associativity).

Definition out (st : pstate) (c : pcall) : pstate :=
  mkP (p_attr st) (p_cur st) (p_need_end st) (p_out st ++ [c]).
Definition set_cur (st : pstate) (p : fpt) : pstate := mkP (p_attr st) p (p_need_end st) (p_out st).
Definition set_need_end (st : pstate) (b : bool) : pstate := mkP (p_attr st) (p_cur st) b (p_out st).
Definition set_attr (st : pstate) (a : list F) : pstate := mkP a (p_cur st) (p_need_end st) (p_out st).

(* an error may be returned after some builder calls were made: carry the state along *)
Inductive outcome (A : Type) := Good (a : A) | Bad (e : perr) (st : pstate).
Arguments Good {A}. Arguments Bad {A}.
Definition lift {A} (st : pstate) (r : result A) : outcome A :=
  match r with Ok a => Good a | Err e => Bad e st end.
Definition obnd {A B} (r : outcome A) (k : A -> outcome B) : outcome B :=
  match r with Good a => k a | Bad e st => Bad e st end.
Notation "'let!' x := e 'in' k" := (obnd e (fun x => k)) (at level 200, x pattern, right associativity).

Variable n_attr : nat.        (* self.num_attributes *)

(* parse_attributes: clear, then push num_attributes numbers (a failure leaves a shorter buffer) *)
Fixpoint parse_attrs_go (n : nat) (st : pstate) (s : source) : outcome (pstate * source) :=
  match n with
  | O => Good (st, s)
  | S k => match parse_number s with
           | Ok (v, s') => parse_attrs_go k (set_attr st (p_attr st ++ [v])) s'
           | Err e => Bad e st
           end
  end.
Definition parse_attributes (st : pstate) (s : source) : outcome (pstate * source) :=
  parse_attrs_go n_attr (set_attr st []) s.

Definition parse_point (st : pstate) (rel : bool) (s : source) : outcome (fpt * source) :=
  let! (x, s) := lift st (parse_number s) in
  let! (y, s) := lift st (parse_number s) in
  if rel then Good ((fadd x (fst (p_cur st)), fadd y (snd (p_cur st))), s)
  else Good ((x, y), s).

Definition parse_endpoint (st : pstate) (rel : bool) (s : source) : outcome (fpt * pstate * source) :=
  let! (p, s) := parse_point st rel s in
  let st := set_cur st p in
  let! (st, s) := parse_attributes st s in
  Good (p, st, s).

Definition get_smooth_ctrl (st : pstate) (prev : option fpt) : fpt :=
  match prev with
  | Some c => (fadd (fst (p_cur st)) (fsub (fst (p_cur st)) (fst c)),
               fadd (snd (p_cur st)) (fsub (snd (p_cur st)) (snd c)))
  | None => p_cur st
  end.

(* oracle answer for one executed A command *)
Record arc_answer := mkAA {
  aa_straight : bool;
  aa_quads : list (fpt * fpt * F) }.   (* ctrl, to, range.end *)

(* interpolated_attributes[i] = prev[i] * (1 - t) + cur[i] * t  for i in 0..num_attributes *)
Fixpoint interp_go (i : nat) (n : nat) (prev cur acc : list F) (t : F) : option (list F) :=
  match n with
  | O => Some acc
  | S k =>
      match nth_error prev i, nth_error cur i, nth_error acc i with
      | Some p, Some c, Some _ =>
          let v := fadd (fmul p (fsub fone t)) (fmul c t) in
          interp_go (S i) k prev cur (firstn i acc ++ [v] ++ skipn (S i) acc) t
      | _, _, _ => None                                     (* index out of bounds *)
      end
  end.

Definition is_alpha (c : Z) : bool := ((65 <=? c) && (c <=? 90)) || ((97 <=? c) && (c <=? 122)).
Definition is_lower (c : Z) : bool := (97 <=? c) && (c <=? 122).
Definition to_lower (c : Z) : Z := if (65 <=? c) && (c <=? 90) then c + 32 else c.

Record lstate := mkL {
  l_first : fpt; l_need_start : bool; l_pc : option fpt; l_pq : option fpt; l_implicit : Z;
  l_oracles : list arc_answer }.

Variable stop_at : option Z.

Inductive step_res := Continue (st : pstate) (l : lstate) (s : source) | Break (st : pstate) | Fail (e : perr) (st : pstate).

Definition ret {A} (r : outcome A) (k : A -> step_res) : step_res :=
  match r with Good a => k a | Bad e st => Fail e st end.

(* one iteration of the `while !src.finished` loop *)
Definition parse_step (st : pstate) (l : lstate) (s : source) : step_res :=
  let cmd0 := sr_cur s in
  let cmd_line := sr_line s in
  let cmd_col := sr_col s in
  if match stop_at with Some c => c =? cmd0 | None => false end then Break st
  else
    let '(cmd, s) := if is_alpha cmd0 then (cmd0, advance_one s) else (l_implicit l, s) in
    let lc := to_lower cmd in
    let is_drawing := (lc =? 108) || (lc =? 104) || (lc =? 118) || (lc =? 113) || (lc =? 116)
                      || (lc =? 99) || (lc =? 115) || (lc =? 97) || (lc =? 122) in
    if l_need_start l && is_drawing then Fail (EMissingMoveTo cmd cmd_line cmd_col) st
    else
      let rel := is_lower cmd in
      let finish (st : pstate) (l : lstate) (s : source) : step_res :=
        (* control-point memory, implicit command, skip_whitespace *)
        let '(pc, pq) :=
          if (lc =? 99) || (lc =? 115) then (l_pc l, None)
          else if (lc =? 113) || (lc =? 116) then (None, l_pq l)
          else (None, None) in
        let imp := if cmd =? 109 then 108 else if cmd =? 77 then 76
                   else if cmd =? 122 then 109 else if cmd =? 90 then 77 else cmd in
        Continue st (mkL (l_first l) (l_need_start l) pc pq imp (l_oracles l)) (skip_whitespace s) in
      if lc =? 108 then                                            (* l L *)
        ret (parse_endpoint st rel s) (fun '(to, st, s) =>
          finish (out st (PLine to (p_attr st))) l s)
      else if lc =? 104 then                                       (* h H *)
        ret (lift st (parse_number s)) (fun '(x, s) =>
          let x := if rel then fadd x (fst (p_cur st)) else x in
          let to := (x, snd (p_cur st)) in
          let st := set_cur st to in
          ret (parse_attributes st s) (fun '(st, s) =>
            finish (out st (PLine to (p_attr st))) l s))
      else if lc =? 118 then                                       (* v V *)
        ret (lift st (parse_number s)) (fun '(y, s) =>
          let y := if rel then fadd y (snd (p_cur st)) else y in
          let to := (fst (p_cur st), y) in
          let st := set_cur st to in
          ret (parse_attributes st s) (fun '(st, s) =>
            finish (out st (PLine to (p_attr st))) l s))
      else if lc =? 113 then                                       (* q Q *)
        ret (parse_point st rel s) (fun '(ctrl, s) =>
          ret (parse_endpoint st rel s) (fun '(to, st, s) =>
            finish (out st (PQuad ctrl to (p_attr st)))
                   (mkL (l_first l) (l_need_start l) (l_pc l) (Some ctrl) (l_implicit l) (l_oracles l)) s))
      else if lc =? 116 then                                       (* t T *)
        let ctrl := get_smooth_ctrl st (l_pq l) in
        ret (parse_endpoint st rel s) (fun '(to, st, s) =>
          finish (out st (PQuad ctrl to (p_attr st)))
                 (mkL (l_first l) (l_need_start l) (l_pc l) (Some ctrl) (l_implicit l) (l_oracles l)) s)
      else if lc =? 99 then                                        (* c C *)
        ret (parse_point st rel s) (fun '(c1, s) =>
          ret (parse_point st rel s) (fun '(c2, s) =>
            ret (parse_endpoint st rel s) (fun '(to, st, s) =>
              finish (out st (PCubic c1 c2 to (p_attr st)))
                     (mkL (l_first l) (l_need_start l) (Some c2) (l_pq l) (l_implicit l) (l_oracles l)) s)))
      else if lc =? 115 then                                       (* s S *)
        let c1 := get_smooth_ctrl st (l_pc l) in
        ret (parse_point st rel s) (fun '(c2, s) =>
          ret (parse_endpoint st rel s) (fun '(to, st, s) =>
            finish (out st (PCubic c1 c2 to (p_attr st)))
                   (mkL (l_first l) (l_need_start l) (Some c2) (l_pq l) (l_implicit l) (l_oracles l)) s))
      else if lc =? 97 then                                        (* a A *)
        let prev_attributes := p_attr st in
        ret (lift st (parse_number s)) (fun '(_, s) =>
        ret (lift st (parse_number s)) (fun '(_, s) =>
        ret (lift st (parse_number s)) (fun '(_, s) =>
        ret (lift st (parse_flag s)) (fun '(_, s) =>
        ret (lift st (parse_flag s)) (fun '(_, s) =>
        ret (parse_endpoint st rel s) (fun '(to, st, s) =>
          let '(ans, rest) := match l_oracles l with
                              | a :: r => (a, r)
                              | [] => (mkAA true [], []) end in
          let l := mkL (l_first l) (l_need_start l) (l_pc l) (l_pq l) (l_implicit l) rest in
          if aa_straight ans then finish (out st (PLine to (p_attr st))) l s
          else
            (* one quadratic per oracle piece, attributes interpolated in place *)
            let fix go (qs : list (fpt * fpt * F)) (interp : list F) (st : pstate) : option pstate :=
              match qs with
              | [] => Some st
              | (c, p, t) :: r =>
                  match interp_go 0 n_attr prev_attributes (p_attr st) interp t with
                  | Some interp' => go r interp' (out st (PQuad c p interp'))
                  | None => None
                  end
              end in
            match go (aa_quads ans) prev_attributes st with
            | Some st' => finish st' l s
            | None => Fail EPanic st
            end))))))
      else if lc =? 109 then                                       (* m M *)
        let st := if p_need_end st then set_need_end (out st (PEnd false)) false else st in
        ret (parse_endpoint st rel s) (fun '(to, st, s) =>
          let st := set_need_end (out st (PBegin to (p_attr st))) true in
          finish st (mkL to false (l_pc l) (l_pq l) (l_implicit l) (l_oracles l)) s)
      else if lc =? 122 then                                       (* z Z *)
        let st := set_need_end (set_cur (out st (PEnd true)) (l_first l)) false in
        finish st (mkL (l_first l) true (l_pc l) (l_pq l) (l_implicit l) (l_oracles l)) s
      else Fail (ECommand cmd cmd_line cmd_col) st.

Fixpoint parse_loop (fuel : nat) (st : pstate) (l : lstate) (s : source) : pstate * option perr :=
  match fuel with
  | O => (st, Some EFuel)
  | S f =>
      if sr_fin s then (st, None)
      else match parse_step st l s with
           | Continue st' l' s' => parse_loop f st' l' s'
           | Break st' => (st', None)
           | Fail e st' => (st', Some e)
           end
  end.

(* PathParser::parse on a fresh Source; [attr0] = the attribute buffer left by a previous use of
   the parser object, [oracles] = answers for the arcs *)
Definition parse (attr0 : list F) (oracles : list arc_answer) (text : list Z)
  : list pcall * option perr :=
  let st := mkP attr0 (fzero, fzero) false [] in
  let s := skip_whitespace (source_new text) in
  let l := mkL (fzero, fzero) true None None 77 oracles in
  let '(st, e) := parse_loop (S (length text)) st l s in
  ((if p_need_end st then p_out st ++ [PEnd false] else p_out st), e).

(* the protocol on the calls seen by the output builder *)
Fixpoint pnested (open : bool) (l : list pcall) : bool :=
  match l with
  | [] => negb open
  | PBegin _ _ :: r => negb open && pnested true r
  | PEnd _ :: r => open && pnested false r
  | _ :: r => open && pnested open r
  end.

(* reference position function: (line, column) of the character at index i of the text,
   lines counted from 0, a newline being the character at column -1 of the line it starts *)
Fixpoint pos_of_go (text : list Z) (i : nat) (line col : Z) : Z * Z :=
  match text, i with
  | c :: r, O => if c =? 10 then (line + 1, -1) else (line, col)
  | c :: r, S k => if c =? 10 then pos_of_go r k (line + 1) 0 else pos_of_go r k line (col + 1)
  | [], _ => (line, col)
  end.
Definition pos_of (text : list Z) (i : nat) : Z * Z := pos_of_go text i 0 0.

End Parser.
