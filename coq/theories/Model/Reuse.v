(* C08: an object with persistent fields whose every call starts by re-initialising them.

   Objects are finite maps from field names to values.  A table (regenerated from the Rust source
   on every run, Gen/ResetTable.v) says for each persistent field what the per-call preamble does to
   it.  [resets k] is the reading of the translator's classification:
     Overwritten / Cleared / Replaced / SubfieldsOverwritten / Reinitialised
        the field's observable value after the preamble is a function of the call's input only
     Configuration   the field keeps its value but is never read by the computation (debug logging)
     Untouched       the field keeps its value and may be read: a carrier of state between calls.

   A call is [run (preamble s i) i]; the run may read and write every field (what it leaves behind -
   also when it fails half-way - is unconstrained), but what it computes depends only on the fields
   the table lists as read ([reads_only]). *)
From Coq Require Import String List Bool.
From LV Require Import Base.Prelude Gen.ResetTable.
Import ListNotations.

Definition resets (k : reset_kind) : bool :=
  match k with
  | Overwritten | Cleared | Replaced | SubfieldsOverwritten | Reinitialised => true
  | Configuration | Untouched => false
  end.
Definition is_config (k : reset_kind) : bool := match k with Configuration => true | _ => false end.

Definition table := list (string * reset_kind).

Fixpoint kind_of (t : table) (f : string) : option reset_kind :=
  match t with
  | [] => None
  | (g, k) :: r => if String.eqb f g then Some k else kind_of r f
  end.

Section Reuse.
Variables V I O : Type.
Definition obj := string -> V.
Variable t : table.
Variable init : I -> string -> V.          (* the value the preamble gives a field *)
Variable run : obj -> I -> obj * O.        (* the tessellation proper *)

Definition preamble (s : obj) (i : I) : obj :=
  fun f => match kind_of t f with
           | Some k => if resets k then init i f else s f
           | None => s f
           end.

Definition call (s : obj) (i : I) : obj * O := run (preamble s i) i.
Definition call_state (s : obj) (i : I) : obj := fst (call s i).
Definition call_output (s : obj) (i : I) : O := snd (call s i).
Definition after (s0 : obj) (h : list I) : obj := fold_left call_state h s0.

(* frame: the output of the run depends on the listed, non-configuration fields only *)
Definition read_field (f : string) : bool :=
  match kind_of t f with Some k => negb (is_config k) | None => false end.
Definition reads_only : Prop :=
  forall s s' i, (forall f, read_field f = true -> s f = s' f) -> snd (run s i) = snd (run s' i).

Definition no_carrier : bool := forallb (fun r => match snd r with Untouched => false | _ => true end) t.
End Reuse.

(* the generated table, per object *)
Definition table_of (obj_name : string) : table :=
  map (fun r => (snd (fst r), snd r)) (filter (fun r => String.eqb (fst (fst r)) obj_name) reset_table).
