(* Line-by-line model of crates/tessellation/src/monotone.rs:
     BasicMonotoneTessellator::{begin, monotone_vertex, end, push_triangle_ids}
     SideEvents::push, AdvancedMonotoneTessellator::{begin, vertex, end}, flush_side
   Positions are exact rationals, vertex ids are Z.  The only inexact float operation whose
   result feeds a comparison is `dy * 0.1` (sides_are_close): it is modelled with F32.f32_round. *)
From Coq Require Import QArith Qminmax.
From LV Require Import Base.Prelude Base.F32 Gen.Constants Model.Bezier.
Open Scope Q_scope.

Record mv := mkMV { m_pos : qpt; m_id : Z; m_left : bool }.     (* MonotoneVertex; side = Left <-> m_left *)

Definition tri := (Z * Z * Z)%type.

Definition vcross (a b : qpt) : Q := px a * py b - py a * px b.

(* fill.rs is_after *)
Definition is_after (a b : qpt) : bool :=
  Qltb (py b) (py a) || (Qeq_bool (py a) (py b) && Qltb (px b) (px a)).

(* -------------------------------------------------- BasicMonotoneTessellator
   b_stack is kept top-first (head = last pushed); b_tris in emission order. *)
Record basic := mkBasic { b_stack : list mv; b_prev : mv; b_tris : list tri }.

Definition basic_begin (pos : qpt) (id : Z) : basic :=
  let first := mkMV pos id true in mkBasic [first] first [].

(* changed_side branch: for i in 0..len-1 over the stack in push order *)
Fixpoint side_change_tris (cur : mv) (s : list mv) : list tri :=
  match s with
  | a :: ((b :: _) as r) =>
      let winding := Qle_bool 0 (vcross (psub (m_pos a) (m_pos b)) (psub (m_pos cur) (m_pos b))) in
      (if winding then (m_id a, m_id b, m_id cur) else (m_id b, m_id a, m_id cur))
      :: side_change_tris cur r
  | _ => []
  end.

(* same-side branch: the pop loop.  [lp] = last_popped, [st] = remaining stack (top first).
   Returns (new triangles, last_popped, remaining stack). Structural on st. *)
Fixpoint pop_loop (cur : mv) (lp : mv) (st : list mv) : list tri * mv * list mv :=
  match st with
  | [] => ([], lp, [])
  | top :: rest =>
      let '(a, b) := if m_left cur then (lp, top) else (top, lp) in
      let cr := vcross (psub (m_pos cur) (m_pos b)) (psub (m_pos a) (m_pos b)) in
      if Qle_bool 0 cr then
        let '(ts, lp', st') := pop_loop cur top rest in
        ((m_id b, m_id a, m_id cur) :: ts, lp', st')
      else ([], lp, st)
  end.

Definition monotone_vertex (t : basic) (cur : mv) : basic :=
  let changed := negb (Bool.eqb (m_left cur) (m_left (b_prev t))) in
  if changed then
    mkBasic [cur; b_prev t] cur (b_tris t ++ side_change_tris cur (rev (b_stack t)))
  else
    match b_stack t with
    | [] => mkBasic [cur] cur (b_tris t)            (* pop() = None: nothing pushed back *)
    | top :: rest =>
        let '(ts, lp, st) := pop_loop cur top rest in
        mkBasic (cur :: lp :: st) cur (b_tris t ++ ts)
    end.

Definition basic_vertex (t : basic) (pos : qpt) (id : Z) (left : bool) : basic :=
  monotone_vertex t (mkMV pos id left).

Definition basic_end (t : basic) (pos : qpt) (id : Z) : basic :=
  let t' := basic_vertex t pos id (negb (m_left (b_prev t))) in
  mkBasic [] (b_prev t') (b_tris t').

Definition push_tri (t : basic) (x : tri) : basic := mkBasic (b_stack t) (b_prev t) (b_tris t ++ [x]).

(* run of the basic tessellator on begin / vertex* / end *)
Definition basic_run (first : qpt * Z) (vs : list (qpt * Z * bool)) (last : qpt * Z) : list tri :=
  let t := fold_left (fun t v => basic_vertex t (fst (fst v)) (snd (fst v)) (snd v)) vs
                     (basic_begin (fst first) (snd first)) in
  b_tris (basic_end t (fst last) (snd last)).

(* ------------------------------------------------------------- SideEvents *)
Record side_events := mkSE {
  se_ref : qpt;                (* reference_point *)
  se_cref_x : Q;               (* conservative_reference_x *)
  se_events : list Z;          (* in push order *)
  se_prev : qpt;
  se_last : mv }.

Definition se_push (s : side_events) (v : mv) : side_events :=
  mkSE (se_ref s) (se_cref_x s) (se_events s ++ [m_id v]) (m_pos (se_last s)) v.

(* ------------------------------------------------------------- flush_side
   The triangles pushed for a chain of [len] events, as index triples. *)
Fixpoint inner_tris (right : bool) (step : nat) (imax : nat) (i : nat) : list (nat * nat * nat) :=
  (* for i in 0..imax, ascending: generated as a list by counting up from i *)
  match imax with
  | O => []
  | S k =>
      let a := (i * 2 * step)%nat in
      let b := (a + step)%nat in
      let last_index := (b + step)%nat in
      (if right then (b, a, last_index) else (a, b, last_index)) :: inner_tris right step k (S i)
  end.

Fixpoint flush_levels (right : bool) (len : nat) (step : nat) (fuel : nat) : list (nat * nat * nat) :=
  match fuel with
  | O => []
  | S f =>
      if Nat.ltb (step * 2) len then
        let imax := ((len - 1) / (2 * step))%nat in
        let last_index := match imax with O => 0%nat | _ => (imax * 2 * step)%nat end in
        inner_tris right step imax 0
        ++ (if Nat.ltb (last_index + step) len then
              let b := last_index in
              let c := (last_index + step)%nat in
              [if right then (0%nat, c, b) else (0%nat, b, c)]
            else [])
        ++ flush_levels right len (step * 2) f
      else []
  end.

Definition flush_index_tris (right : bool) (len : nat) : list (nat * nat * nat) :=
  flush_levels right len 1 len.

Definition nthz (l : list Z) (i : nat) : Z := nth i l (-1)%Z.

(* flush_side(side, s, tess): returns new side, new tess, Option<MonotoneVertex> *)
Definition flush_side (s : side_events) (left : bool) (t : basic) : side_events * basic * option mv :=
  let len := length (se_events s) in
  if Nat.ltb len 2 then (s, t, None)
  else
    let ts := map (fun x => let '(a, b, c) := x in
                            (nthz (se_events s) a, nthz (se_events s) b, nthz (se_events s) c))
                  (flush_index_tris (negb left) len) in
    let t' := mkBasic (b_stack t) (b_prev t) (b_tris t ++ ts) in
    (* side.events.clear(); side.push(side.last); side.reference_point = side.last.pos *)
    let s' := mkSE (m_pos (se_last s)) (se_cref_x s) [m_id (se_last s)] (m_pos (se_last s)) (se_last s) in
    (s', t', Some (se_last s)).

(* ------------------------------------------- AdvancedMonotoneTessellator *)
Record advanced := mkAdv { a_tess : basic; a_left : side_events; a_right : side_events }.

Definition adv_begin (pos : qpt) (id : Z) : advanced :=
  let dummy := mkMV (0, 0) 0%Z true in
  let l := se_push (mkSE pos (px pos) [] pos dummy) (mkMV pos id true) in
  let r := se_push (mkSE pos (px pos) [] pos dummy) (mkMV pos id false) in
  (* note: SideEvents::push sets prev := last.pos (the stale `last` of a previous use); begin then
     leaves prev as that stale value.  prev is only read when events.len() >= 2, by which time it has
     been overwritten by a later push, so the model uses the dummy's position. *)
  mkAdv (basic_begin pos id) l r.

Definition set_ref_x (s : side_events) (x : Q) : side_events :=
  mkSE (x, py (se_ref s)) (se_cref_x s) (se_events s) (se_prev s) (se_last s).
Definition set_cref (s : side_events) (x : Q) : side_events :=
  mkSE (se_ref s) x (se_events s) (se_prev s) (se_last s).

Definition adv_vertex (a : advanced) (pos : qpt) (id : Z) (left : bool) : advanced :=
  (* update the reference values of the vertex's side *)
  let a1 :=
    if left then
      let l := set_ref_x (a_left a) (Qmax (px (se_ref (a_left a))) (px pos)) in
      let l := set_cref l (Qmax (se_cref_x l) (px (se_ref l))) in
      mkAdv (a_tess a) l (a_right a)
    else
      let r := set_ref_x (a_right a) (Qmin (px (se_ref (a_right a))) (px pos)) in
      let r := set_cref r (Qmin (se_cref_x r) (px (se_ref r))) in
      mkAdv (a_tess a) (a_left a) r in
  let dx := se_cref_x (a_right a1) - se_cref_x (a_left a1) in
  let '(side_ev, opp_ev) := if left then (a_left a1, a_right a1) else (a_right a1, a_left a1) in
  let dy := py pos - py (se_ref side_ev) in
  (* dy * 0.1 in f32: the literal (regenerated from monotone.rs) is rounded to f32, then the product *)
  let sides_are_close := Qltb dx (f32_round (dy * f32_round sides_are_close_factor)) in
  let len := length (se_events side_ev) in
  let outward_turn :=
    if negb sides_are_close && Nat.leb 2 len then
      let sign := if left then 1 else - (1) in
      let prev := se_prev side_ev in
      let last := m_pos (se_last side_ev) in
      Qltb (vcross (psub prev last) (psub pos last) * sign) 0
    else false in
  let '(side_ev, opp_ev, tess) :=
    if outward_turn || sides_are_close then
      let must_flush_opp := is_after (m_pos (se_last side_ev)) (m_pos (se_last opp_ev)) in
      let '(side_ev, opp_ev, tess) :=
        if must_flush_opp then
          match flush_side opp_ev (negb left) (a_tess a1) with
          | (opp', t', Some v) =>
              (set_cref side_ev (px (se_ref side_ev)), opp', monotone_vertex t' v)
          | (opp', t', None) => (side_ev, opp', t')
          end
        else (side_ev, opp_ev, a_tess a1) in
      match flush_side side_ev left tess with
      | (side', t', Some v) =>
          (side', set_cref opp_ev (px (se_ref opp_ev)), monotone_vertex t' v)
      | (side', t', None) => (side', opp_ev, t')
      end
    else (side_ev, opp_ev, a_tess a1) in
  (* flush_side reset the reference point to the last vertex: fold the new vertex in again *)
  let side_ev :=
    set_ref_x side_ev (if left then Qmax (px (se_ref side_ev)) (px pos) else Qmin (px (se_ref side_ev)) (px pos)) in
  let side_ev := se_push side_ev (mkMV pos id left) in
  if left then mkAdv tess side_ev opp_ev else mkAdv tess opp_ev side_ev.

Definition adv_end (a : advanced) (pos : qpt) (id : Z) : basic :=
  let '(l, t1, va) := flush_side (a_left a) true (a_tess a) in
  let '(r, t2, vb) := flush_side (a_right a) false t1 in
  let t3 :=
    match va, vb with
    | Some v, None | None, Some v => monotone_vertex t2 v
    | Some v1, Some v2 =>
        let '(v1, v2) := if is_after (m_pos v1) (m_pos v2) then (v2, v1) else (v1, v2) in
        monotone_vertex (monotone_vertex t2 v1) v2
    | None, None => t2
    end in
  basic_end t3 pos id.

Definition adv_run (first : qpt * Z) (vs : list (qpt * Z * bool)) (last : qpt * Z) : list tri :=
  let a := fold_left (fun a v => adv_vertex a (fst (fst v)) (snd (fst v)) (snd v)) vs
                     (adv_begin (fst first) (snd first)) in
  b_tris (adv_end a (fst last) (snd last)).
