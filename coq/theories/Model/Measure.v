(* Model of crates/algorithms/src/measure.rs (PathSampler cursor logic) and walk.rs (PathWalker::edge).
     in_bounds, move_cursor (dist == 0 shortcut, forward / backward, linear and binary branches with
     the heuristic's decision as a free boolean), the Begin-edge skip of sample_impl, t(dist);
     PathWalker::edge as a function of the edge length (leftover / next_distance / advancement).
   Every table access is explicit ([nth_error]): an out-of-range index is [None].  Distances are
   rationals; the arithmetic of t(dist) and of the walker is a Section parameter in the runner. *)
From Coq Require Import QArith.
From LV Require Import Base.Prelude Model.Bezier.
Open Scope Q_scope.

Record mrow := mkRow { r_dist : Q; r_index : nat; r_t : Q }.

Definition row_at (tbl : list mrow) (i : nat) : option mrow := nth_error tbl i.

(* self.cursor != 0 && edges[cursor-1].distance <= dist && dist <= edges[cursor].distance *)
Definition in_bounds (tbl : list mrow) (cursor : nat) (dist : Q) : option bool :=
  match cursor with
  | O => Some false
  | S c => do a <- row_at tbl c; do b <- row_at tbl cursor;
           Some (Qle_bool (r_dist a) dist && Qle_bool dist (r_dist b))
  end.

(* loop { cursor += 1; if dist <= edges[cursor].distance { break } } *)
Fixpoint fwd_linear (fuel : nat) (tbl : list mrow) (cursor : nat) (dist : Q) : option nat :=
  match fuel with
  | O => None
  | S f => do r <- row_at tbl (S cursor);
           if Qle_bool dist (r_dist r) then Some (S cursor) else fwd_linear f tbl (S cursor) dist
  end.

(* loop { cursor -= 1; if cursor == 0 || edges[cursor-1].distance < dist { break } } *)
Fixpoint bwd_linear (fuel : nat) (tbl : list mrow) (cursor : nat) (dist : Q) : option nat :=
  match fuel with
  | O => None
  | S f =>
      match cursor with
      | O => None                                   (* usize underflow *)
      | S c =>
          match c with
          | O => Some O
          | S c' => do r <- row_at tbl c';
                    if Qltb (r_dist r) dist then Some c else bwd_linear f tbl c dist
          end
      end
  end.

(* partition_point(first, last, |p| edges[p].distance < dist) *)
Fixpoint partition_point (fuel : nat) (tbl : list mrow) (l r : nat) (dist : Q) : option nat :=
  match fuel with
  | O => None
  | S f =>
      if Nat.ltb l r then
        let mid := ((l + r) / 2)%nat in
        do m <- row_at tbl mid;
        if Qltb (r_dist m) dist then partition_point f tbl (S mid) r dist
        else partition_point f tbl l mid dist
      else Some l
  end.

(* move_cursor; [binary] is the outcome of the cost heuristic *)
Definition move_cursor (tbl : list mrow) (cursor : nat) (dist : Q) (binary : bool) : option nat :=
  if Qeq_bool dist 0 then Some 1%nat
  else
    do ib <- in_bounds tbl cursor dist;
    if ib then Some cursor
    else
      do cur <- row_at tbl cursor;
      let n := length tbl in
      if Qltb (r_dist cur) dist then
        if binary then partition_point (S n) tbl (S cursor) n dist
        else fwd_linear (S n) tbl cursor dist
      else
        if binary then partition_point (S n) tbl 0 cursor dist
        else bwd_linear (S n) tbl cursor dist.

(* event kinds: 0 Begin, 1 segment (line / quadratic / cubic / closing edge), 2 End without edge *)
Definition kind_at (kinds : list Z) (i : nat) : option Z := nth_error kinds i.

(* sample_impl: skip Begin edges after move_cursor *)
Fixpoint skip_begin (fuel : nat) (tbl : list mrow) (kinds : list Z) (cursor : nat) : option nat :=
  match fuel with
  | O => Some cursor
  | S f =>
      if Nat.ltb (S cursor) (length tbl) then
        do r <- row_at tbl cursor; do k <- kind_at kinds (r_index r);
        if (k =? 0)%Z then skip_begin f tbl kinds (S cursor) else Some cursor
      else Some cursor
  end.

Section T.
Variables fsub fmul fdiv fadd : Q -> Q -> Q.
(* t(dist) at the cursor *)
Definition t_at (tbl : list mrow) (cursor : nat) (dist : Q) : option Q :=
  match cursor with
  | O => None
  | S c =>
      do prev <- row_at tbl c; do cur <- row_at tbl cursor;
      let t_begin := if Nat.eqb (r_index prev) (r_index cur) then r_t prev else 0 in
      Some (fadd t_begin (fmul (fsub (r_t cur) t_begin)
                               (fdiv (fsub dist (r_dist prev)) (fsub (r_dist cur) (r_dist prev)))))
  end.
End T.

(* one sample query (distance already clamped to [0, length]): new cursor, event index, is-segment *)
Definition sample_cursor (tbl : list mrow) (kinds : list Z) (cursor : nat) (dist : Q) (binary : bool)
  : option (nat * nat * Z) :=
  do c <- move_cursor tbl cursor dist binary;
  do c <- skip_begin (length tbl) tbl kinds c;
  do r <- row_at tbl c; do k <- kind_at kinds (r_index r);
  Some (c, r_index r, k).

(* well-formed tables (what PathMeasurements::initialize builds): first distance 0, distances
   non-decreasing, at least two rows, every index valid *)
Fixpoint nondecreasing (prev : Q) (tbl : list mrow) : bool :=
  match tbl with
  | [] => true
  | r :: rest => Qle_bool prev (r_dist r) && nondecreasing (r_dist r) rest
  end.
Definition table_ok (tbl : list mrow) (kinds : list Z) : bool :=
  match tbl with
  | r0 :: _ :: _ => Qeq_bool (r_dist r0) 0 && nondecreasing 0 tbl
                    && forallb (fun r => Nat.ltb (r_index r) (length kinds)) tbl
  | _ => false
  end.
Definition table_length (tbl : list mrow) : Q := r_dist (last tbl (mkRow 0 0 0)).

(* ------------------------------------------------------------------ walker *)
(* PathWalker::edge on an edge of length d (d >= 1e-5 tested by the caller), with the pattern
   given as the list of distances it will answer ([] = it returns None: done).
   Returns the events emitted as (x = fraction along the edge, advancement) and the new state. *)
Record wstate := mkW { w_leftover : Q; w_next : Q; w_adv : Q; w_pattern : list Q; w_done : bool }.

Fixpoint walk_edge_go (fuel : nat) (d : Q) (s : wstate) (distance x : Q) (acc : list (Q * Q))
  : wstate * list (Q * Q) :=
  match fuel with
  | O => (s, acc)
  | S f =>
      if Qle_bool (w_next s) distance then
        let x' := x + (w_next s - w_leftover s) / d in
        let adv := w_adv s + w_next s in
        let distance' := distance - w_next s in
        match w_pattern s with
        | [] => (mkW 0 (w_next s) adv [] true, acc ++ [(x', adv)])
        | nd :: rest => walk_edge_go f d (mkW 0 nd adv rest false) distance' x' (acc ++ [(x', adv)])
        end
      else (mkW distance (w_next s) (w_adv s) (w_pattern s) false, acc)
  end.

Definition walk_edge (d : Q) (s : wstate) : wstate * list (Q * Q) :=
  if w_done s then (s, [])
  else walk_edge_go (S (length (w_pattern s))) d s (w_leftover s + d) 0 [].

(* a whole polyline given by its edge lengths: events as (edge number, x, advancement) *)
Fixpoint walk_edges (k : nat) (ds : list Q) (s : wstate) : list (nat * Q * Q) :=
  match ds with
  | [] => []
  | d :: r => let '(s', evs) := walk_edge d s in
              map (fun e => (k, fst e, snd e)) evs ++ walk_edges (S k) r s'
  end.
