(* Model of crates/path/src/path.rs : storage layout, builders and every
   read-side view of `Path` / `PathSlice`.  Executable definitions only.

   Modelled items (Rust):
     BuilderImpl::{begin,end,line_to,quadratic_bezier_to,cubic_bezier_to,build}
     BuilderWithAttributes::{push_attributes_impl,begin,end,line_to,...,build}
     Iter::next, PointIter::{next,advance_n}, IterWithAttributes::{pop_endpoint,next}
     IdIter::next, interpolated_attributes, concatenate_paths,
     Reversed::next, n_stored_points, PathSlice::{first_endpoint,last_endpoint}

   Every raw read of the point storage is an explicit [option]: [None] means
   that the Rust code would read outside the storage (NaN from PointIter::next,
   a failed assert in advance_n / interpolated_attributes, or an index panic).
   Coordinates and attribute values are [Z] (the harness uses integer-valued
   f32); nothing in the model or proofs depends on that choice except
   decidable equality. *)
From LV Require Import Base.Prelude.

Inductive verb := VBegin | VLine | VQuad | VCubic | VClose | VEnd.

Definition verb_eqb (a b : verb) : bool :=
  match a, b with
  | VBegin, VBegin | VLine, VLine | VQuad, VQuad | VCubic, VCubic
  | VClose, VClose | VEnd, VEnd => true
  | _, _ => false
  end.

Record path := mkPath { p_points : list pt; p_verbs : list verb; p_nattr : nat }.

(* ---------------------------------------------------------------- events *)

Inductive event (E C : Type) :=
| EvBegin (at_ : E)
| EvLine (from to : E)
| EvQuad (from : E) (c : C) (to : E)
| EvCubic (from : E) (c1 c2 : C) (to : E)
| EvEnd (last first : E) (close : bool).
Arguments EvBegin {E C}. Arguments EvLine {E C}. Arguments EvQuad {E C}.
Arguments EvCubic {E C}. Arguments EvEnd {E C}.

Definition map_event {E C E' C'} (f : E -> E') (g : C -> C') (e : event E C) : event E' C' :=
  match e with
  | EvBegin a => EvBegin (f a)
  | EvLine a b => EvLine (f a) (f b)
  | EvQuad a c b => EvQuad (f a) (g c) (f b)
  | EvCubic a c1 c2 b => EvCubic (f a) (g c1) (g c2) (f b)
  | EvEnd l fi c => EvEnd (f l) (f fi) c
  end.

Definition path_event := event pt pt.
Definition id_event := event nat nat.
Definition attr_event := event (pt * list Z) pt.

(* --------------------------------------------------------- builder model *)

Inductive bop :=
| OBegin (at_ : pt) (a : list Z)
| OLine (to : pt) (a : list Z)
| OQuad (c to : pt) (a : list Z)
| OCubic (c1 c2 to : pt) (a : list Z)
| OEnd (close : bool).

(* push_attributes_impl: pairs, odd count padded with 0 *)
Fixpoint pack (a : list Z) : list pt :=
  match a with
  | [] => []
  | [x] => [(x, 0%Z)]
  | x :: y :: r => (x, y) :: pack r
  end.

Definition stride_of (n : nat) : nat := (n + 1) / 2.

Record bstate := mkB {
  b_points : list pt; b_verbs : list verb;
  b_first : pt; b_first_attrs : list Z }.

Definition b_init (n : nat) : bstate :=
  mkB [] [] (0, 0)%Z (repeat 0%Z n).

(* One builder call; returns the new state and the EndpointId it returns
   (0 for end).  BuilderWithAttributes with n = 0 behaves like BuilderImpl. *)
Definition b_step (s : bstate) (o : bop) : bstate * nat :=
  match o with
  | OBegin p a =>
      (mkB (b_points s ++ [p] ++ pack a) (b_verbs s ++ [VBegin]) p a,
       length (b_points s))
  | OLine p a =>
      (mkB (b_points s ++ [p] ++ pack a) (b_verbs s ++ [VLine]) (b_first s) (b_first_attrs s),
       length (b_points s))
  | OQuad c p a =>
      (mkB (b_points s ++ [c; p] ++ pack a) (b_verbs s ++ [VQuad]) (b_first s) (b_first_attrs s),
       S (length (b_points s)))
  | OCubic c1 c2 p a =>
      (mkB (b_points s ++ [c1; c2; p] ++ pack a) (b_verbs s ++ [VCubic]) (b_first s) (b_first_attrs s),
       S (S (length (b_points s))))
  | OEnd true =>
      (mkB (b_points s ++ [b_first s] ++ pack (b_first_attrs s)) (b_verbs s ++ [VClose])
           (b_first s) (b_first_attrs s), 0)
  | OEnd false =>
      (mkB (b_points s) (b_verbs s ++ [VEnd]) (b_first s) (b_first_attrs s), 0)
  end.

Fixpoint b_run (s : bstate) (ops : list bop) : bstate * list nat :=
  match ops with
  | [] => (s, [])
  | o :: r => let '(s', id) := b_step s o in
              let '(s'', ids) := b_run s' r in (s'', id :: ids)
  end.

Definition build (n : nat) (ops : list bop) : path :=
  let s := fst (b_run (b_init n) ops) in mkPath (b_points s) (b_verbs s) n.

Definition build_ids (n : nat) (ops : list bop) : list nat := snd (b_run (b_init n) ops).

(* ------------------------------------------------------------ raw reads *)

(* PointIter::next *)
Definition pnext (pts : list pt) : option (pt * list pt) :=
  match pts with [] => None | p :: r => Some (p, r) end.

(* PointIter::advance_n (assert remaining_len >= n) *)
Definition padvance (n : nat) (pts : list pt) : option (list pt) :=
  if Nat.leb n (length pts) then Some (skipn n pts) else None.

Definition flat (pts : list pt) : list Z :=
  flat_map (fun p => [fst p; snd p]) pts.

(* interpolated_attributes(num_attributes, points, endpoint) *)
Definition attrs_at (n : nat) (pts : list pt) (id : nat) : option (list Z) :=
  if Nat.eqb n 0 then Some []
  else if Nat.leb (S id + stride_of n) (length pts)
       then Some (firstn n (flat (skipn (S id) pts)))
       else None.

(* slice indexing points[i] *)
Definition pget (pts : list pt) (i : nat) : option pt := nth_error pts i.

(* ------------------------------------------------------------ Iter::next *)

Fixpoint iter_go (stride : nat) (vs : list verb) (pts : list pt) (cur first : pt)
  : option (list path_event) :=
  match vs with
  | [] => Some []
  | VBegin :: vs' =>
      do (p, pts1) <- pnext pts;
      do pts2 <- padvance stride pts1;
      do r <- iter_go stride vs' pts2 p p;
      Some (EvBegin p :: r)
  | VLine :: vs' =>
      do (p, pts1) <- pnext pts;
      do pts2 <- padvance stride pts1;
      do r <- iter_go stride vs' pts2 p first;
      Some (EvLine cur p :: r)
  | VQuad :: vs' =>
      do (c, pts0) <- pnext pts;
      do (p, pts1) <- pnext pts0;
      do pts2 <- padvance stride pts1;
      do r <- iter_go stride vs' pts2 p first;
      Some (EvQuad cur c p :: r)
  | VCubic :: vs' =>
      do (c1, pts00) <- pnext pts;
      do (c2, pts0) <- pnext pts00;
      do (p, pts1) <- pnext pts0;
      do pts2 <- padvance stride pts1;
      do r <- iter_go stride vs' pts2 p first;
      Some (EvCubic cur c1 c2 p :: r)
  | VClose :: vs' =>
      do (_, pts1) <- pnext pts;
      do pts2 <- padvance stride pts1;
      (* note: Iter does not update `current` on Close *)
      do r <- iter_go stride vs' pts2 cur first;
      Some (EvEnd cur first true :: r)
  | VEnd :: vs' =>
      do r <- iter_go stride vs' pts first first;
      Some (EvEnd cur first false :: r)
  end.

Definition iter (p : path) : option (list path_event) :=
  iter_go (stride_of (p_nattr p)) (p_verbs p) (p_points p) (0, 0)%Z (0, 0)%Z.

(* ------------------------------------------- IterWithAttributes::next *)

(* pop_endpoint: position, then attributes read from the following slots *)
Definition pop_endpoint (n : nat) (pts : list pt) : option ((pt * list Z) * list pt) :=
  do (p, pts1) <- pnext pts;
  do pts2 <- padvance (stride_of n) pts1;
  Some ((p, firstn n (flat pts1)), pts2).

Fixpoint iter_attr_go (n : nat) (vs : list verb) (pts : list pt) (cur first : pt * list Z)
  : option (list attr_event) :=
  match vs with
  | [] => Some []
  | VBegin :: vs' =>
      do (e, pts2) <- pop_endpoint n pts;
      do r <- iter_attr_go n vs' pts2 e e;
      Some (EvBegin e :: r)
  | VLine :: vs' =>
      do (e, pts2) <- pop_endpoint n pts;
      do r <- iter_attr_go n vs' pts2 e first;
      Some (EvLine cur e :: r)
  | VQuad :: vs' =>
      do (c, pts0) <- pnext pts;
      do (e, pts2) <- pop_endpoint n pts0;
      do r <- iter_attr_go n vs' pts2 e first;
      Some (EvQuad cur c e :: r)
  | VCubic :: vs' =>
      do (c1, pts00) <- pnext pts;
      do (c2, pts0) <- pnext pts00;
      do (e, pts2) <- pop_endpoint n pts0;
      do r <- iter_attr_go n vs' pts2 e first;
      Some (EvCubic cur c1 c2 e :: r)
  | VClose :: vs' =>
      do (e, pts2) <- pop_endpoint n pts;
      do r <- iter_attr_go n vs' pts2 e first;
      Some (EvEnd cur first true :: r)
  | VEnd :: vs' =>
      do r <- iter_attr_go n vs' pts first first;
      Some (EvEnd cur first false :: r)
  end.

Definition iter_attr (p : path) : option (list attr_event) :=
  iter_attr_go (p_nattr p) (p_verbs p) (p_points p) ((0, 0)%Z, []) ((0, 0)%Z, []).

(* ---------------------------------------------------------- IdIter::next *)

Fixpoint id_iter_go (es : nat) (vs : list verb) (cur first : nat) : list id_event :=
  match vs with
  | [] => []
  | VBegin :: vs' => EvBegin cur :: id_iter_go es vs' cur cur
  | VLine :: vs' => EvLine cur (cur + es) :: id_iter_go es vs' (cur + es) first
  | VQuad :: vs' =>
      let base := cur + es in
      EvQuad cur base (base + 1) :: id_iter_go es vs' (base + 1) first
  | VCubic :: vs' =>
      let base := cur + es in
      EvCubic cur base (base + 1) (base + 2) :: id_iter_go es vs' (base + 2) first
  | VClose :: vs' => EvEnd cur first true :: id_iter_go es vs' (cur + es * 2) first
  | VEnd :: vs' => EvEnd cur first false :: id_iter_go es vs' (cur + es) first
  end.

Definition id_iter (p : path) : list id_event :=
  id_iter_go (stride_of (p_nattr p) + 1) (p_verbs p) 0 0.

(* resolving id events through the path's own position / attribute stores *)
Definition resolve_event (p : path) (e : id_event) : option attr_event :=
  let ep i := do q <- pget (p_points p) i; do a <- attrs_at (p_nattr p) (p_points p) i; Some (q, a) in
  let cp i := pget (p_points p) i in
  match e with
  | EvBegin a => do a' <- ep a; Some (EvBegin a')
  | EvLine a b => do a' <- ep a; do b' <- ep b; Some (EvLine a' b')
  | EvQuad a c b => do a' <- ep a; do c' <- cp c; do b' <- ep b; Some (EvQuad a' c' b')
  | EvCubic a c1 c2 b =>
      do a' <- ep a; do c1' <- cp c1; do c2' <- cp c2; do b' <- ep b; Some (EvCubic a' c1' c2' b')
  | EvEnd l f c => do l' <- ep l; do f' <- ep f; Some (EvEnd l' f' c)
  end.

Fixpoint omap {A B} (f : A -> option B) (l : list A) : option (list B) :=
  match l with
  | [] => Some []
  | x :: r => do y <- f x; do ys <- omap f r; Some (y :: ys)
  end.

Definition id_iter_resolved (p : path) : option (list attr_event) :=
  omap (resolve_event p) (id_iter p).

(* ------------------------------------------------------- Reversed::next *)

Definition n_stored_points (v : verb) (stride : nat) : nat :=
  match v with
  | VBegin | VLine | VClose => stride + 1
  | VQuad => stride + 2
  | VCubic => stride + 3
  | VEnd => 0
  end.

(* checked subtraction: usize underflow panics in debug and wraps to an
   out-of-range index in release; either way it is an invalid access *)
Definition csub (a b : nat) : option nat := if Nat.leb b a then Some (a - b) else None.

Definition ep_at (p : path) (i : nat) : option (pt * list Z) :=
  do q <- pget (p_points p) i; do a <- attrs_at (p_nattr p) (p_points p) i; Some (q, a).

(* rvs: verbs in reverse order; pos: self.p; need_close; first *)
Fixpoint reversed_go (p : path) (rvs : list verb) (pos : nat) (need_close : bool)
         (first : option (pt * list Z)) : option (list attr_event) :=
  let es := stride_of (p_nattr p) + 1 in
  match rvs with
  | [] => Some []
  | v :: rvs' =>
    do pos' <- csub pos (n_stored_points v (stride_of (p_nattr p)));
    match v with
    | VClose =>
        do idx <- csub pos (2 * es);
        do f <- ep_at p idx;
        do r <- reversed_go p rvs' pos' true (Some f);
        Some (EvBegin f :: r)
    | VEnd =>
        do idx <- csub pos es;
        do f <- ep_at p idx;
        do r <- reversed_go p rvs' pos' false (Some f);
        Some (EvBegin f :: r)
    | VBegin =>
        do idx <- csub pos es;
        do l <- ep_at p idx;
        do f <- first;                      (* self.first.take().unwrap() *)
        do r <- reversed_go p rvs' pos' false None;
        Some (EvEnd l f need_close :: r)
    | VLine =>
        do from <- csub pos es;
        do to <- csub from es;
        do a <- ep_at p from; do b <- ep_at p to;
        do r <- reversed_go p rvs' pos' need_close first;
        Some (EvLine a b :: r)
    | VQuad =>
        do from <- csub pos es;
        do ctrl <- csub from 1;
        do to <- csub ctrl es;
        do a <- ep_at p from; do c <- pget (p_points p) ctrl; do b <- ep_at p to;
        do r <- reversed_go p rvs' pos' need_close first;
        Some (EvQuad a c b :: r)
    | VCubic =>
        do from <- csub pos es;
        do ctrl1 <- csub from 1;
        do ctrl2 <- csub ctrl1 1;
        do to <- csub ctrl2 es;
        do a <- ep_at p from; do c1 <- pget (p_points p) ctrl1;
        do c2 <- pget (p_points p) ctrl2; do b <- ep_at p to;
        do r <- reversed_go p rvs' pos' need_close first;
        Some (EvCubic a c1 c2 b :: r)
    end
  end.

Definition reversed (p : path) : option (list attr_event) :=
  reversed_go p (rev (p_verbs p)) (length (p_points p)) false None.

(* first_endpoint / last_endpoint *)
Definition first_endpoint (p : path) : option (option (pt * list Z)) :=
  match p_points p with
  | [] => Some None
  | _ => do e <- ep_at p 0; Some (Some e)
  end.

Definition last_endpoint (p : path) : option (option (pt * list Z)) :=
  match p_points p with
  | [] => Some None
  | _ => do off <- csub (length (p_points p)) (stride_of (p_nattr p) + 1);
         do e <- ep_at p off; Some (Some e)
  end.

(* concatenate_paths / extend_from_paths *)
Definition concat_paths (n : nat) (ps : list path) : path :=
  mkPath (flat_map p_points ps) (flat_map p_verbs ps) n.

(* ------------------------------------------- builder-call replay of events
   (PathBuilder::event, used by Reversed::into_path and FromIterator) *)
Definition op_of_event (e : attr_event) : bop :=
  match e with
  | EvBegin (p, a) => OBegin p a
  | EvLine _ (p, a) => OLine p a
  | EvQuad _ c (p, a) => OQuad c p a
  | EvCubic _ c1 c2 (p, a) => OCubic c1 c2 p a
  | EvEnd _ _ c => OEnd c
  end.
