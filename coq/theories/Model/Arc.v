(* Model of the algebraic part of crates/geom/src/arc.rs over exact rationals:
     Arc::from_svg_arc (F6.5.1 - F6.5.3 of the SVG implementation notes, incl. the radii scaling
     F6.6.2), the flag -> sweep adjustment, Arc::to_svg_arc flags, and the structure of
     arc_to_quadratic_beziers_with_t / arc_to_cubic_beziers (step angles and parameter ranges).
   Trigonometry and square roots are oracles: (cos_phi, sin_phi) for the x-rotation, [sq] for sqrt;
   angles stay abstract (the start / end directions are returned as unit vectors). *)
From Coq Require Import QArith Qabs.
From LV Require Import Base.Prelude Model.Bezier.
Open Scope Q_scope.

Record svg_arc := mkSvgArc {
  sa_from : qpt; sa_to : qpt; sa_rx : Q; sa_ry : Q; sa_large : bool; sa_sweep : bool }.

Record center_form := mkCF {
  cf_center : qpt; cf_rx : Q; cf_ry : Q;
  cf_start_v : qpt;      (* (cos, sin) of the start angle in the ellipse's own frame *)
  cf_end_v : qpt;
  cf_scaled : bool }.    (* radii were scaled up *)

Section FromSvg.
Variables cos_phi sin_phi : Q.
Variable sq : Q -> Q.

Definition rotated_half_diff (a : svg_arc) : qpt :=
  let hd_x := (px (sa_from a) - px (sa_to a)) / 2 in
  let hd_y := (py (sa_from a) - py (sa_to a)) / 2 in
  (cos_phi * hd_x + sin_phi * hd_y, - sin_phi * hd_x + cos_phi * hd_y).

Definition radii_factor (a : svg_arc) : Q :=
  let p := rotated_half_diff a in
  let rx := Qabs (sa_rx a) in
  let ry := Qabs (sa_ry a) in
  px p * px p / (rx * rx) + py p * py p / (ry * ry).

Definition from_svg_arc (a : svg_arc) : center_form :=
  let rx0 := Qabs (sa_rx a) in
  let ry0 := Qabs (sa_ry a) in
  let hs_x := (px (sa_from a) + px (sa_to a)) / 2 in
  let hs_y := (py (sa_from a) + py (sa_to a)) / 2 in
  let p := rotated_half_diff a in
  let rf := radii_factor a in
  let scaled := Qltb 1 rf in
  let '(rx, ry) := if scaled then (rx0 * sq rf, ry0 * sq rf) else (rx0, ry0) in
  let rxry := rx * ry in
  let rxpy := rx * py p in
  let rypx := ry * px p in
  let sum_of_sq := rxpy * rxpy + rypx * rypx in
  let sign_coe := if Bool.eqb (sa_large a) (sa_sweep a) then - (1) else 1 in
  let coe := sign_coe * sq (Qabs ((rxry * rxry - sum_of_sq) / sum_of_sq)) in
  let tcx := coe * rxpy / ry in
  let tcy := - coe * rypx / rx in
  let center := (cos_phi * tcx - sin_phi * tcy + hs_x, sin_phi * tcx + cos_phi * tcy + hs_y) in
  mkCF center rx ry
       ((px p - tcx) / rx, (py p - tcy) / ry)
       ((- px p - tcx) / rx, (- py p - tcy) / ry)
       scaled.

(* the point of the centre-form ellipse in direction (c, s) of its own frame:
   center + R(phi) * (rx c, ry s) *)
Definition ellipse_point (cf : center_form) (v : qpt) : qpt :=
  (px (cf_center cf) + cos_phi * (cf_rx cf * px v) - sin_phi * (cf_ry cf * py v),
   py (cf_center cf) + sin_phi * (cf_rx cf * px v) + cos_phi * (cf_ry cf * py v)).
End FromSvg.

(* sweep adjustment: raw = (end_angle - start_angle) % 2 pi, in (-2 pi, 2 pi) *)
Definition adjust_sweep (two_pi : Q) (sweep_flag : bool) (raw : Q) : Q :=
  if sweep_flag && Qltb raw 0 then raw + two_pi
  else if negb sweep_flag && Qltb 0 raw then raw - two_pi
  else raw.

(* to_svg_arc flags *)
Definition to_svg_flags (pi : Q) (sweep_angle : Q) : bool * bool :=   (* (large_arc, sweep) *)
  (Qle_bool pi (Qabs sweep_angle), Qle_bool 0 sweep_angle).

(* arc_to_quadratic_beziers_with_t: the step angles and parameter ranges for n_steps pieces;
   a_i = start + step * i, t ranges accumulate dt, the last one ends at exactly 1 *)
Fixpoint bezier_pieces (n : nat) (i : nat) (start step : Q) (t0 dt : Q) : list (Q * Q * Q * Q) :=
  (* (a1, a2, t0, t1) *)
  match n with
  | O => []
  | S k =>
      let a1 := start + step * inject_Z (Z.of_nat i) in
      let a2 := start + step * inject_Z (Z.of_nat (S i)) in
      let t1 := match k with O => 1 | _ => t0 + dt end in
      (a1, a2, t0, t1) :: bezier_pieces k (S i) start step t1 dt
  end.
Definition arc_bezier_pieces (n_steps : nat) (start sweep_abs sign : Q) : list (Q * Q * Q * Q) :=
  let nq := inject_Z (Z.of_nat n_steps) in
  bezier_pieces n_steps 0 start (sweep_abs / nq * sign) 0 (1 / nq).
