(* Model of crates/path/src/builder.rs : WithSvg<Builder> (the SVG-style builder adapter),
   every SvgPathBuilder method, as a state machine emitting the calls made on the wrapped
   PathBuilder.  Point arithmetic is a Section parameter ([add1], [sub1] on coordinates), so the
   theorems hold for any arithmetic; the correspondence run instantiates it with exactly-rounded
   f32 addition / subtraction.  The geometric part of arcs (is_straight_line, to_arc, Arc::from,
   for_each_quadratic_bezier, approx_eq) is an ORACLE recorded from the real run. *)
From Coq Require Import QArith.
From LV Require Import Base.Prelude Model.Bezier Gen.Constants.
Open Scope Q_scope.

Section Svg.
(* coordinate type and its arithmetic: arbitrary *)
Variable C : Type.
Variable zero : C.
Variables add1 sub1 : C -> C -> C.
Definition cpt := (C * C)%type.
Definition cx (p : cpt) : C := fst p.
Definition cy (p : cpt) : C := snd p.

(* calls seen by the wrapped builder *)
Inductive icall :=
| IBegin (p : cpt) | ILine (p : cpt) | IQuad (c p : cpt) | ICubic (c1 c2 p : cpt) | IEnd (close : bool).

Inductive sverb := SvLine | SvQuad | SvCubic | SvBegin | SvClose | SvEnd.
(* `self.last_cmd as u8`, numbering regenerated from path.rs by the translator *)
Definition sverb_num (v : sverb) : Z :=
  match v with
  | SvLine => verb_LineTo | SvQuad => verb_QuadraticTo | SvCubic => verb_CubicTo
  | SvBegin => verb_Begin | SvClose => verb_Close | SvEnd => verb_End
  end.

Record arc_oracle := mkAO {
  ao_straight : bool;            (* SvgArc::is_straight_line (arc_to only) *)
  ao_skip : bool;                (* current_position.approx_eq(center) *)
  ao_start : cpt;                (* arc.from() *)
  ao_near : bool;                (* (arc_start - current).square_length() < 0.01 *)
  ao_quads : list (cpt * cpt) }. (* (ctrl, to) of each quadratic, already cast to f32 *)

Inductive svg_cmd :=
| SMove (p : cpt) | SRelMove (v : cpt)
| SLine (p : cpt) | SRelLine (v : cpt)
| SHoriz (x : C) | SRelHoriz (dx : C) | SVert (y : C) | SRelVert (dy : C)
| SQuad (c p : cpt) | SRelQuad (c p : cpt) | SSmoothQuad (p : cpt) | SRelSmoothQuad (v : cpt)
| SCubic (c1 c2 p : cpt) | SRelCubic (c1 c2 p : cpt) | SSmoothCubic (c2 p : cpt) | SRelSmoothCubic (c2 p : cpt)
| SClose
| SArcTo (p : cpt) (o : arc_oracle) | SRelArcTo (v : cpt) (o : arc_oracle)
| SArc (o : arc_oracle).

Definition addp (a b : cpt) : cpt := (add1 (cx a) (cx b), add1 (cy a) (cy b)).
Definition subp (a b : cpt) : cpt := (sub1 (cx a) (cx b), sub1 (cy a) (cy b)).
(* current + (current - last_ctrl) *)
Definition reflect (cur ctrl : cpt) : cpt := addp cur (subp cur ctrl).

Record svg_state := mkSvg {
  s_first : cpt; s_cur : cpt; s_last_ctrl : cpt; s_last_cmd : sverb;
  s_need_moveto : bool; s_is_empty : bool;
  s_out : list icall }.     (* calls on the wrapped builder, in order *)

Definition svg_init : svg_state :=
  mkSvg (zero, zero) (zero, zero) (zero, zero) SvEnd true true [].

Definition emit (s : svg_state) (c : icall) : svg_state :=
  mkSvg (s_first s) (s_cur s) (s_last_ctrl s) (s_last_cmd s) (s_need_moveto s) (s_is_empty s) (s_out s ++ [c]).

Definition end_if_needed (s : svg_state) : svg_state :=
  if (sverb_num (s_last_cmd s) <=? sverb_num SvBegin)%Z then emit s (IEnd false) else s.

Definition do_move_to (s : svg_state) (to : cpt) : svg_state :=
  let s := end_if_needed s in
  mkSvg to to (s_last_ctrl s) SvBegin false false (s_out s ++ [IBegin to]).

(* begin_if_needed / insert_move_to: returns the new state and whether the command is skipped *)
Definition begin_if_needed (s : svg_state) (default : cpt) : svg_state * bool :=
  if s_need_moveto s then
    if s_is_empty s then (do_move_to s default, true)
    else (do_move_to s (s_first s), false)
  else (s, false).

Definition do_line_to (s : svg_state) (to : cpt) : svg_state :=
  let '(s, skip) := begin_if_needed s to in
  if skip then s
  else mkSvg (s_first s) to (s_last_ctrl s) SvLine (s_need_moveto s) (s_is_empty s) (s_out s ++ [ILine to]).

Definition do_close (s : svg_state) : svg_state :=
  if s_need_moveto s then s
  else mkSvg (s_first s) (s_first s) (s_last_ctrl s) SvClose true (s_is_empty s) (s_out s ++ [IEnd true]).

Definition do_quad_to (s : svg_state) (ctrl to : cpt) : svg_state :=
  let '(s, skip) := begin_if_needed s to in
  if skip then s
  else mkSvg (s_first s) to ctrl SvQuad (s_need_moveto s) (s_is_empty s) (s_out s ++ [IQuad ctrl to]).

Definition do_cubic_to (s : svg_state) (c1 c2 to : cpt) : svg_state :=
  let '(s, skip) := begin_if_needed s to in
  if skip then s
  else mkSvg (s_first s) to c2 SvCubic (s_need_moveto s) (s_is_empty s) (s_out s ++ [ICubic c1 c2 to]).

Definition set_last_ctrl (s : svg_state) (c : cpt) : svg_state :=
  mkSvg (s_first s) (s_cur s) c (s_last_cmd s) (s_need_moveto s) (s_is_empty s) (s_out s).
Definition set_cur (s : svg_state) (c : cpt) : svg_state :=
  mkSvg (s_first s) c (s_last_ctrl s) (s_last_cmd s) (s_need_moveto s) (s_is_empty s) (s_out s).

(* WithSvg::arc with the geometry supplied by the oracle *)
Definition do_arc (s : svg_state) (o : arc_oracle) : svg_state :=
  let s := set_last_ctrl s (s_cur s) in
  if ao_skip o then s
  else
    let s := if s_need_moveto s then do_move_to s (ao_start o)
             else if ao_near o then emit s (ILine (ao_start o)) else s in
    let s := fold_left (fun s q => set_cur (emit s (IQuad (fst q) (snd q))) (snd q)) (ao_quads o) s in
    set_last_ctrl s (s_cur s).

Definition smooth_cubic_ctrl (s : svg_state) : cpt :=
  match s_last_cmd s with SvCubic => reflect (s_cur s) (s_last_ctrl s) | _ => s_cur s end.
Definition smooth_quad_ctrl (s : svg_state) : cpt :=
  match s_last_cmd s with SvQuad => reflect (s_cur s) (s_last_ctrl s) | _ => s_cur s end.

Definition do_arc_to (s : svg_state) (to : cpt) (o : arc_oracle) : svg_state :=
  if ao_straight o then do_line_to s to else do_arc s o.

Definition svg_step (s : svg_state) (c : svg_cmd) : svg_state :=
  match c with
  | SMove p => do_move_to s p
  | SRelMove v => do_move_to s (addp (s_cur s) v)
  | SLine p => do_line_to s p
  | SRelLine v => do_line_to s (addp (s_cur s) v)
  | SHoriz x => do_line_to s (x, cy (s_cur s))
  | SRelHoriz dx => do_line_to s (add1 (cx (s_cur s)) dx, cy (s_cur s))
  | SVert y => do_line_to s (cx (s_cur s), y)
  | SRelVert dy => do_line_to s (cx (s_cur s), add1 (cy (s_cur s)) dy)
  | SQuad c p => do_quad_to s c p
  | SRelQuad c p => do_quad_to s (addp (s_cur s) c) (addp (s_cur s) p)
  | SSmoothQuad p => do_quad_to s (smooth_quad_ctrl s) p
  | SRelSmoothQuad v => do_quad_to s (smooth_quad_ctrl s) (addp (s_cur s) v)
  | SCubic c1 c2 p => do_cubic_to s c1 c2 p
  | SRelCubic c1 c2 p => do_cubic_to s (addp (s_cur s) c1) (addp (s_cur s) c2) (addp (s_cur s) p)
  | SSmoothCubic c2 p => do_cubic_to s (smooth_cubic_ctrl s) c2 p
  | SRelSmoothCubic c2 p => do_cubic_to s (smooth_cubic_ctrl s) (addp (s_cur s) c2) (addp (s_cur s) p)
  | SClose => do_close s
  | SArcTo p o => do_arc_to s p o
  | SRelArcTo v o => do_arc_to s (addp (s_cur s) v) o
  | SArc o => do_arc s o
  end.

(* the calls seen by the wrapped builder for a command sequence followed by build() *)
Definition svg_run (cmds : list svg_cmd) : list icall :=
  s_out (end_if_needed (fold_left svg_step cmds svg_init)).

(* ------------------------------------------------------------------------------------
   SvgSem: the SVG path rules, written independently of the adapter's registers:
   the state is what the SVG specification talks about - current point, start of the current
   sub-path, whether a sub-path is open, whether anything was drawn yet, and the control point
   of the previous command if it was a quadratic (resp. cubic) curve command. *)
Record sem_state := mkSem {
  m_cur : cpt; m_start : cpt; m_open : bool; m_empty : bool;
  m_qctrl : option cpt; m_cctrl : option cpt;
  m_out : list icall }.

Definition sem_init : sem_state := mkSem (zero, zero) (zero, zero) false true None None [].

Definition sem_emit (s : sem_state) (cs : list icall) : list icall := m_out s ++ cs.

(* start a sub-path at p (ending an open one without closing it) *)
Definition sem_move (s : sem_state) (p : cpt) : sem_state :=
  mkSem p p true false None None (sem_emit s ((if m_open s then [IEnd false] else []) ++ [IBegin p])).

(* a drawing command that ends at [to]; [mk] builds the edge call;
   - as the very first command of the path it becomes move_to(to) (lyon's documented rule);
   - after a close, the new sub-path starts at the start of the previous one (SVG rule) *)
Definition sem_draw (s : sem_state) (to : cpt) (edge : icall) (q c : option cpt) : sem_state :=
  if m_open s then mkSem to (m_start s) true false q c (sem_emit s [edge])
  else if m_empty s then sem_move s to
  else mkSem to (m_start s) true false q c (sem_emit s [IBegin (m_start s); edge]).

Definition sem_close (s : sem_state) : sem_state :=
  if m_open s then mkSem (m_start s) (m_start s) false (m_empty s) None None (sem_emit s [IEnd true])
  else s.

Definition sem_qctrl (s : sem_state) : cpt :=
  match m_qctrl s with Some c => reflect (m_cur s) c | None => m_cur s end.
Definition sem_cctrl (s : sem_state) : cpt :=
  match m_cctrl s with Some c => reflect (m_cur s) c | None => m_cur s end.

(* arcs: the oracle gives the geometry; SVG: an arc is not a curve command for smooth purposes *)
Definition sem_arc (s : sem_state) (o : arc_oracle) : sem_state :=
  let s := mkSem (m_cur s) (m_start s) (m_open s) (m_empty s) None None (m_out s) in
  if ao_skip o then s
  else
    let s := if m_open s then
               (if ao_near o then mkSem (m_cur s) (m_start s) true false None None (sem_emit s [ILine (ao_start o)]) else s)
             else sem_move s (ao_start o) in
    let last := last (map snd (ao_quads o)) (m_cur s) in
    mkSem last (m_start s) (m_open s) (m_empty s) None None
          (sem_emit s (map (fun q => IQuad (fst q) (snd q)) (ao_quads o))).

Definition sem_step (s : sem_state) (c : svg_cmd) : sem_state :=
  let rel v := addp (m_cur s) v in
  match c with
  | SMove p => sem_move s p
  | SRelMove v => sem_move s (rel v)
  | SLine p => sem_draw s p (ILine p) None None
  | SRelLine v => sem_draw s (rel v) (ILine (rel v)) None None
  | SHoriz x => let p := (x, cy (m_cur s)) in sem_draw s p (ILine p) None None
  | SRelHoriz dx => let p := (add1 (cx (m_cur s)) dx, cy (m_cur s)) in sem_draw s p (ILine p) None None
  | SVert y => let p := (cx (m_cur s), y) in sem_draw s p (ILine p) None None
  | SRelVert dy => let p := (cx (m_cur s), add1 (cy (m_cur s)) dy) in sem_draw s p (ILine p) None None
  | SQuad c p => sem_draw s p (IQuad c p) (Some c) None
  | SRelQuad c p => sem_draw s (rel p) (IQuad (rel c) (rel p)) (Some (rel c)) None
  | SSmoothQuad p => let c := sem_qctrl s in sem_draw s p (IQuad c p) (Some c) None
  | SRelSmoothQuad v => let c := sem_qctrl s in sem_draw s (rel v) (IQuad c (rel v)) (Some c) None
  | SCubic c1 c2 p => sem_draw s p (ICubic c1 c2 p) None (Some c2)
  | SRelCubic c1 c2 p => sem_draw s (rel p) (ICubic (rel c1) (rel c2) (rel p)) None (Some (rel c2))
  | SSmoothCubic c2 p => sem_draw s p (ICubic (sem_cctrl s) c2 p) None (Some c2)
  | SRelSmoothCubic c2 p => sem_draw s (rel p) (ICubic (sem_cctrl s) (rel c2) (rel p)) None (Some (rel c2))
  | SClose => sem_close s
  | SArcTo p o => if ao_straight o then sem_draw s p (ILine p) None None else sem_arc s o
  | SRelArcTo v o => if ao_straight o then sem_draw s (rel v) (ILine (rel v)) None None else sem_arc s o
  | SArc o => sem_arc s o
  end.

Definition sem_run (cmds : list svg_cmd) : list icall :=
  let s := fold_left sem_step cmds sem_init in
  m_out s ++ (if m_open s then [IEnd false] else []).

(* the protocol: (begin edge* end)* *)
Fixpoint well_nested (open : bool) (l : list icall) : bool :=
  match l with
  | [] => negb open
  | IBegin _ :: r => negb open && well_nested true r
  | IEnd _ :: r => open && well_nested false r
  | _ :: r => open && well_nested open r
  end.

End Svg.
