(* Model of crates/path/src/commands.rs : the `PathCommands` command buffer
   (one `[u32]` mixing verbs, endpoint ids, control point ids and, after the
   End/Close verbs, the index of the Begin event of the sub-path), its builder
   and every read-side view.  Executable definitions only, no proofs.

   Modelled items (Rust):
     mod verb
     PathCommandsBuilder::{new, begin, end, line_to, quadratic_bezier_to,
                           cubic_bezier_to, build}       (+ DebugValidator)
     CmdIter::next
     Iter::{new, next}                  (PathCommands::iter, PathCommandsSlice::iter)
     PathCommandsSlice::{event, next_event_id_in_sub_path, next_event_id_in_path}
                                        (= the methods of PathCommands)
     Events::next                       (PathCommands::events, CommandsPathSlice::events;
                                         PointEvents::next is the same code followed
                                         by `.position()`)

   Buffer layout (words pushed by each builder call; `len` = buffer length
   before the call, which is also the EventId the call returns):
     begin(to)              : BEGIN to            first_event_index := len
     line_to(to)            : LINE to
     quadratic_bezier_to    : QUADRATIC ctrl to
     cubic_bezier_to        : CUBIC ctrl1 ctrl2 to
     end(close)             : (CLOSE | END) first_event_index

   Ids, indices and buffer words are [Z] (the Rust uses u32 / usize; nothing
   here wraps around, see the report for the places where the Rust truncates
   `len()` to u32).  Every indexed read `cmds[i]`, `endpoints[i]`,
   `control_points[i]` is [rd], an explicit [nth_error] that is [None] when the
   Rust would panic (index out of bounds, or `idx - 1` underflowing).  Every
   `CmdIter::next().unwrap()` that would panic is the outcome [RPanic].
   Loops carry fuel; running out of fuel is the separate outcome [RFuel]. *)
From LV Require Import Base.Prelude Model.PathStore.
Local Open Scope Z_scope.

(* ----------------------------------------------------------------- verbs *)

(* mod verb *)
Definition V_LINE : Z := 0.
Definition V_QUADRATIC : Z := 1.
Definition V_CUBIC : Z := 2.
Definition V_BEGIN : Z := 3.
Definition V_CLOSE : Z := 4.
Definition V_END : Z := 5.

(* How every `match` on a command word dispatches: LINE, QUADRATIC, CUBIC,
   BEGIN, END are tested explicitly and every other word (CLOSE, but also any
   garbage) takes the `_` arm, which is the Close arm. *)
Definition verb_of (w : Z) : verb :=
  if w =? V_LINE then VLine
  else if w =? V_QUADRATIC then VQuad
  else if w =? V_CUBIC then VCubic
  else if w =? V_BEGIN then VBegin
  else if w =? V_END then VEnd
  else VClose.

(* ------------------------------------------------------------- outcomes *)

Inductive cres (A : Type) :=
| ROk (a : A)
| RPanic          (* the Rust panics: out-of-bounds index or unwrap on None *)
| RFuel.          (* model artefact: the fuel of a loop ran out *)
Arguments ROk {A}. Arguments RPanic {A}. Arguments RFuel {A}.

Definition rcons {A} (x : A) (r : cres (list A)) : cres (list A) :=
  match r with ROk l => ROk (x :: l) | RPanic => RPanic | RFuel => RFuel end.

Definition rmap {A B} (f : A -> B) (r : cres A) : cres B :=
  match r with ROk a => ROk (f a) | RPanic => RPanic | RFuel => RFuel end.

(* `slice[i]` with i : usize computed in Z.  A negative index only arises from
   `idx - 1` with idx = 0: overflow panic in debug builds, usize::MAX (hence an
   index panic) in release builds. *)
Definition rd {A} (l : list A) (i : Z) : option A :=
  if i <? 0 then None else nth_error l (Z.to_nat i).

(* ------------------------------------------------------------- builder *)

(* One builder call, with ids instead of points (cf. [bop]). *)
Inductive cop :=
| CBegin (at_ : Z)
| CLine (to : Z)
| CQuad (ctrl to : Z)
| CCubic (ctrl1 ctrl2 to : Z)
| CEnd (close : bool).

(* PathCommandsBuilder { cmds, first_event_index, validator } ; the validator
   (debug builds only) is [cop_nested] below. *)
Record cbuilder := mkCB { cb_cmds : list Z; cb_first_event_index : Z }.

(* Default::default() *)
Definition cb_new : cbuilder := mkCB [] 0.

Definition push (l : list Z) (x : Z) : list Z := l ++ [x].

(* self.cmds.len() as u32 *)
Definition cb_len (s : cbuilder) : Z := Z.of_nat (length (cb_cmds s)).

(* One call; returns the new builder and the EventId the call returns
   (`end` returns Some(id), always Some). *)
Definition cb_step (s : cbuilder) (o : cop) : cbuilder * Z :=
  match o with
  | CBegin to =>
      let fei := cb_len s in
      let id := cb_len s in
      let c := push (cb_cmds s) V_BEGIN in
      let c := push c to in
      (mkCB c fei, id)
  | CEnd close =>
      let id := cb_len s in
      let cmd := if close then V_CLOSE else V_END in
      let c := push (cb_cmds s) cmd in
      let c := push c (cb_first_event_index s) in
      (mkCB c (cb_first_event_index s), id)
  | CLine to =>
      let id := cb_len s in
      let c := push (cb_cmds s) V_LINE in
      let c := push c to in
      (mkCB c (cb_first_event_index s), id)
  | CQuad ctrl to =>
      let id := cb_len s in
      let c := push (cb_cmds s) V_QUADRATIC in
      let c := push c ctrl in
      let c := push c to in
      (mkCB c (cb_first_event_index s), id)
  | CCubic ctrl1 ctrl2 to =>
      let id := cb_len s in
      let c := push (cb_cmds s) V_CUBIC in
      let c := push c ctrl1 in
      let c := push c ctrl2 in
      let c := push c to in
      (mkCB c (cb_first_event_index s), id)
  end.

Fixpoint cb_run (s : cbuilder) (p : list cop) : cbuilder * list Z :=
  match p with
  | [] => (s, [])
  | o :: r => let '(s', id) := cb_step s o in
              let '(s'', ids) := cb_run s' r in (s'', id :: ids)
  end.

(* build(): the boxed slice is the vector *)
Definition cmd_build (p : list cop) : list Z := cb_cmds (fst (cb_run cb_new p)).

(* the EventIds returned by the successive builder calls *)
Definition cmd_build_ids (p : list cop) : list Z := snd (cb_run cb_new p).

(* --------------------------------------------------------------- CmdIter *)

(* CmdIter is a (ptr, end) pair, i.e. the remaining suffix of the buffer.
   CmdIter::next: None at the end, otherwise the word and the advanced iterator. *)
Definition cnext (it : list Z) : option (Z * list Z) :=
  match it with [] => None | w :: r => Some (w, r) end.

(* One call of an Iterator::next *)
Inductive step (A S : Type) :=
| Yield (a : A) (s : S)     (* Some(a), new iterator state *)
| Done                      (* None *)
| Panic.                    (* unwrap on None / index out of bounds *)
Arguments Yield {A S}. Arguments Done {A S}. Arguments Panic {A S}.

(* ------------------------------------------------------------ Iter::next *)

(* Iter { cmds: CmdIter, idx, prev_endpoint, first_endpoint }.
   `idx` is written by every arm of `next` and never read by the Rust; the
   model keeps it so that a theorem can say what it counts. *)
Record iter_state := mkIt {
  it_cmds : list Z; it_idx : Z; it_prev : Z; it_first : Z }.

(* Iter::new *)
Definition iter_new (cmds : list Z) : iter_state := mkIt cmds 0 0 0.

Definition iter_next (s : iter_state) : step (event Z Z) iter_state :=
  match cnext (it_cmds s) with
  | None => Done
  | Some (w, c1) =>
    match verb_of w with
    | VBegin =>
        match cnext c1 with
        | None => Panic
        | Some (to, c2) => Yield (EvBegin to) (mkIt c2 (it_idx s + 2) to to)
        end
    | VLine =>
        match cnext c1 with
        | None => Panic
        | Some (to, c2) =>
            Yield (EvLine (it_prev s) to) (mkIt c2 (it_idx s + 2) to (it_first s))
        end
    | VQuad =>
        match cnext c1 with
        | None => Panic
        | Some (ctrl, c2) =>
          match cnext c2 with
          | None => Panic
          | Some (to, c3) =>
              Yield (EvQuad (it_prev s) ctrl to) (mkIt c3 (it_idx s + 3) to (it_first s))
          end
        end
    | VCubic =>
        match cnext c1 with
        | None => Panic
        | Some (ctrl1, c2) =>
          match cnext c2 with
          | None => Panic
          | Some (ctrl2, c3) =>
            match cnext c3 with
            | None => Panic
            | Some (to, c4) =>
                Yield (EvCubic (it_prev s) ctrl1 ctrl2 to)
                      (mkIt c4 (it_idx s + 4) to (it_first s))
            end
          end
        end
    | VEnd =>
        (* let _first_index = self.cmds.next();   -- not unwrapped *)
        let c2 := match cnext c1 with None => c1 | Some (_, c2) => c2 end in
        Yield (EvEnd (it_prev s) (it_first s) false)
              (mkIt c2 (it_idx s + 2) (it_first s) (it_first s))
    | VClose =>
        let c2 := match cnext c1 with None => c1 | Some (_, c2) => c2 end in
        Yield (EvEnd (it_prev s) (it_first s) true)
              (mkIt c2 (it_idx s + 2) (it_first s) (it_first s))
    end
  end.

(* Collect the iterator; each event is paired with the value of `idx` when
   `next` was entered. *)
Fixpoint iter_collect (fuel : nat) (s : iter_state) : cres (list (Z * event Z Z)) :=
  match fuel with
  | O => RFuel
  | S f =>
    match iter_next s with
    | Done => ROk []
    | Panic => RPanic
    | Yield e s' => rcons (it_idx s, e) (iter_collect f s')
    end
  end.

(* every call that yields consumes at least one word: fuel = len + 1 *)
Definition cmd_iter_idx (cmds : list Z) : cres (list (Z * event Z Z)) :=
  iter_collect (S (length cmds)) (iter_new cmds).

(* for e in cmds.iter() *)
Definition cmd_iter (cmds : list Z) : cres (list (event Z Z)) :=
  rmap (map snd) (cmd_iter_idx cmds).

(* ------------------------------------------------- random access by EventId *)

(* PathCommandsSlice::event.  [None] = the Rust panics. *)
Definition cmd_event (cmds : list Z) (id : Z) : option (event Z Z) :=
  let idx := id in
  do w <- rd cmds idx;
  match verb_of w with
  | VLine =>
      do from <- rd cmds (idx - 1);
      do to <- rd cmds (idx + 1);
      Some (EvLine from to)
  | VQuad =>
      do from <- rd cmds (idx - 1);
      do ctrl <- rd cmds (idx + 1);
      do to <- rd cmds (idx + 2);
      Some (EvQuad from ctrl to)
  | VCubic =>
      do from <- rd cmds (idx - 1);
      do ctrl1 <- rd cmds (idx + 1);
      do ctrl2 <- rd cmds (idx + 2);
      do to <- rd cmds (idx + 3);
      Some (EvCubic from ctrl1 ctrl2 to)
  | VBegin =>
      do at_ <- rd cmds (idx + 1);
      Some (EvBegin at_)
  | VEnd =>
      do first_event <- rd cmds (idx + 1);
      do last <- rd cmds (idx - 1);
      do first <- rd cmds (first_event + 1);
      Some (EvEnd last first false)
  | VClose =>
      do first_event <- rd cmds (idx + 1);
      do last <- rd cmds (idx - 1);
      do first <- rd cmds (first_event + 1);
      Some (EvEnd last first true)
  end.

(* PathCommandsSlice::next_event_id_in_sub_path (returns an EventId, not an
   Option).  [None] = the Rust panics. *)
Definition cmd_next_in_sub_path (cmds : list Z) (id : Z) : option Z :=
  let idx := id in
  do w <- rd cmds idx;
  match verb_of w with
  | VLine | VBegin => Some (id + 2)
  | VQuad => Some (id + 3)
  | VCubic => Some (id + 4)
  | VEnd | VClose => rd cmds (idx + 1)
  end.

(* PathCommandsSlice::next_event_id_in_path.  Outer [None] = the Rust panics;
   [Some None] = the Rust returns None. *)
Definition cmd_next_in_path (cmds : list Z) (id : Z) : option (option Z) :=
  let idx := id in
  do w <- rd cmds idx;
  let next :=
    match verb_of w with
    | VQuad => id + 3
    | VCubic => id + 4
    | _ => id + 2
    end in
  if next <? Z.of_nat (length cmds) then Some (Some next) else Some None.

(* The loop of the `next_event` unit test:
     let mut id = start; loop { visit(id, event(id));
                                match next_event_id_in_path(id) { Some(n) => id = n, None => break } } *)
Fixpoint cmd_walk (fuel : nat) (cmds : list Z) (id : Z) : cres (list (Z * event Z Z)) :=
  match fuel with
  | O => RFuel
  | S f =>
    match cmd_event cmds id, cmd_next_in_path cmds id with
    | Some e, Some (Some id') => rcons (id, e) (cmd_walk f cmds id')
    | Some e, Some None => ROk [(id, e)]
    | _, _ => RPanic
    end
  end.

(* ---------------------------------------------------------- Events::next *)

Section Events.
Context {E C : Type}.

(* Events { cmds: CmdIter, prev_endpoint: usize, first_endpoint: usize,
            endpoints, control_points } ; the two slices never change. *)
Record events_state := mkEv { ev_cmds : list Z; ev_prev : Z; ev_first : Z }.

(* PathCommands::events / CommandsPathSlice::events *)
Definition events_new (cmds : list Z) : events_state := mkEv cmds 0 0.

Definition ostep {A S} (o : option A) (s : S) : step A S :=
  match o with Some a => Yield a s | None => Panic end.

Definition events_next (eps : list E) (cps : list C) (s : events_state)
  : step (event E C) events_state :=
  match cnext (ev_cmds s) with
  | None => Done
  | Some (w, c1) =>
    match verb_of w with
    | VBegin =>
        match cnext c1 with
        | None => Panic
        | Some (to, c2) =>
            ostep (do a <- rd eps to; Some (EvBegin a)) (mkEv c2 to to)
        end
    | VLine =>
        match cnext c1 with
        | None => Panic
        | Some (to, c2) =>
            let from := ev_prev s in
            ostep (do a <- rd eps from; do b <- rd eps to; Some (EvLine a b))
                  (mkEv c2 to (ev_first s))
        end
    | VQuad =>
        match cnext c1 with
        | None => Panic
        | Some (ctrl, c2) =>
          match cnext c2 with
          | None => Panic
          | Some (to, c3) =>
              let from := ev_prev s in
              ostep (do a <- rd eps from; do c <- rd cps ctrl; do b <- rd eps to;
                     Some (EvQuad a c b))
                    (mkEv c3 to (ev_first s))
          end
        end
    | VCubic =>
        match cnext c1 with
        | None => Panic
        | Some (ctrl1, c2) =>
          match cnext c2 with
          | None => Panic
          | Some (ctrl2, c3) =>
            match cnext c3 with
            | None => Panic
            | Some (to, c4) =>
                let from := ev_prev s in
                ostep (do a <- rd eps from; do k1 <- rd cps ctrl1; do k2 <- rd cps ctrl2;
                       do b <- rd eps to; Some (EvCubic a k1 k2 b))
                      (mkEv c4 to (ev_first s))
            end
          end
        end
    | VEnd =>
        let c2 := match cnext c1 with None => c1 | Some (_, c2) => c2 end in
        let last := ev_prev s in
        let first := ev_first s in
        ostep (do l <- rd eps last; do f <- rd eps first; Some (EvEnd l f false))
              (mkEv c2 first first)
    | VClose =>
        let c2 := match cnext c1 with None => c1 | Some (_, c2) => c2 end in
        let last := ev_prev s in
        let first := ev_first s in
        ostep (do l <- rd eps last; do f <- rd eps first; Some (EvEnd l f true))
              (mkEv c2 first first)
    end
  end.

Fixpoint events_collect (fuel : nat) (eps : list E) (cps : list C) (s : events_state)
  : cres (list (event E C)) :=
  match fuel with
  | O => RFuel
  | S f =>
    match events_next eps cps s with
    | Done => ROk []
    | Panic => RPanic
    | Yield e s' => rcons e (events_collect f eps cps s')
    end
  end.

(* for e in cmds.events(endpoints, control_points) *)
Definition cmd_events (cmds : list Z) (eps : list E) (cps : list C) : cres (list (event E C)) :=
  events_collect (S (length cmds)) eps cps (events_new cmds).

End Events.

(* ======================================================== specification *)
(* Independent of the buffer: what a builder program denotes. *)

(* DebugValidator: begin needs !in_subpath, edges and end need in_subpath,
   build needs !in_subpath. *)
Fixpoint cop_nested_go (inside : bool) (p : list cop) : bool :=
  match p with
  | [] => negb inside
  | CBegin _ :: r => negb inside && cop_nested_go true r
  | CEnd _ :: r => inside && cop_nested_go false r
  | _ :: r => inside && cop_nested_go true r
  end.

Definition cop_nested (p : list cop) : bool := cop_nested_go false p.

(* The id events: Begin at; each edge from the previous endpoint;
   End { last, first, close }. *)
Fixpoint cop_events_go (p : list cop) (prev first : Z) : list (event Z Z) :=
  match p with
  | [] => []
  | CBegin a :: r => EvBegin a :: cop_events_go r a a
  | CLine t :: r => EvLine prev t :: cop_events_go r t first
  | CQuad c t :: r => EvQuad prev c t :: cop_events_go r t first
  | CCubic c1 c2 t :: r => EvCubic prev c1 c2 t :: cop_events_go r t first
  | CEnd cl :: r => EvEnd prev first cl :: cop_events_go r first first
  end.

(* (the initial 0 0 is never used by a well-nested program) *)
Definition cop_events (p : list cop) : list (event Z Z) := cop_events_go p 0 0.

(* all ids within the two stores *)
Definition in_rng (n : nat) (i : Z) : bool := (0 <=? i) && (i <? Z.of_nat n).

Definition cop_ids_ok (ne nc : nat) (o : cop) : bool :=
  match o with
  | CBegin a => in_rng ne a
  | CLine t => in_rng ne t
  | CQuad c t => in_rng nc c && in_rng ne t
  | CCubic c1 c2 t => in_rng nc c1 && in_rng nc c2 && in_rng ne t
  | CEnd _ => true
  end.

Definition cop_in_range (ne nc : nat) (p : list cop) : bool := forallb (cop_ids_ok ne nc) p.

(* sub-path structure of a list of (event id, event) *)
Definition is_begin {E C} (e : event E C) : bool :=
  match e with EvBegin _ => true | _ => false end.
Definition is_end {E C} (e : event E C) : bool :=
  match e with EvEnd _ _ _ => true | _ => false end.

(* The expected answers of next_event_id_in_sub_path along a walk: the id of
   the following event, except at an End where it is the id of the latest Begin
   ([cur] = id of the Begin of the sub-path being traversed). *)
Fixpoint sub_next_spec (cur : Z) (l : list (Z * event Z Z)) : list Z :=
  match l with
  | [] => []
  | (id, e) :: r =>
      let cur' := if is_begin e then id else cur in
      (if is_end e then cur' else match r with (id', _) :: _ => id' | [] => cur' end)
      :: sub_next_spec cur' r
  end.
