(* Model of LineSegment::intersection_t / intersects / line_intersection_t (crates/geom/src/line.rs)
   over exact rationals, statement by statement (shared-endpoint pre-test, parallel test,
   signum/abs, postponed division). *)
From Coq Require Import QArith Qabs.
From LV Require Import Base.Prelude Model.Bezier.
Open Scope Q_scope.

Definition cross (a b : qpt) : Q := px a * py b - py a * px b.

(* f64::signum: 1 for +0 and positives, -1 for negatives (the zero case is excluded before use) *)
Definition qsignum (x : Q) : Q := if Qltb x 0 then - (1) else 1.

Definition seg_intersection_t (s o : lineseg) : option (Q * Q) :=
  if peqb (l_to s) (l_to o) || peqb (l_from s) (l_from o)
     || peqb (l_from s) (l_to o) || peqb (l_to s) (l_from o) then None
  else
    let v1 := psub (l_to s) (l_from s) in
    let v2 := psub (l_to o) (l_from o) in
    let v1_cross_v2 := cross v1 v2 in
    if Qeq_bool v1_cross_v2 0 then None
    else
      let sign := qsignum v1_cross_v2 in
      let abs_ := Qabs v1_cross_v2 in
      let v3 := psub (l_from o) (l_from s) in
      let t := cross v3 v2 * sign in
      let u := cross v3 v1 * sign in
      if Qltb t 0 || Qltb abs_ t || Qltb u 0 || Qltb abs_ u then None
      else Some (t / abs_, u / abs_).

Definition seg_intersects (s o : lineseg) : bool :=
  match seg_intersection_t s o with Some _ => true | None => false end.

Definition seg_intersection (s o : lineseg) : option qpt :=
  match seg_intersection_t s o with Some (t, _) => Some (l_sample s t) | None => None end.

(* LineSegment::line_intersection_t against an infinite line (point, vector) *)
Definition seg_line_intersection_t (s : lineseg) (lp lv : qpt) : option Q :=
  let v1 := psub (l_to s) (l_from s) in
  let c := cross v1 lv in
  if Qeq_bool c 0 then None
  else
    let sign := qsignum c in
    let abs_ := Qabs c in
    let v3 := psub lp (l_from s) in
    let t := cross v3 lv * sign in
    if Qltb t 0 || Qltb abs_ t then None else Some (t / abs_).

(* ---- specification vocabulary ---- *)
Definition shares_endpoint (s o : lineseg) : Prop :=
  l_to s =p= l_to o \/ l_from s =p= l_from o \/ l_from s =p= l_to o \/ l_to s =p= l_from o.
Definition parallel (s o : lineseg) : Prop :=
  cross (psub (l_to s) (l_from s)) (psub (l_to o) (l_from o)) == 0.
(* the two segments meet at parameters t, u *)
Definition meet_at (s o : lineseg) (t u : Q) : Prop :=
  0 <= t /\ t <= 1 /\ 0 <= u /\ u <= 1 /\ l_sample s t =p= l_sample o u.
