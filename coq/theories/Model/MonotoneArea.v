(* Areas for the monotone triangulation stage (Model/Monotone.v): twice the signed area of an
   emitted triangle (ids resolved to positions), the polygon described by a begin / vertex* / end
   sequence (begin, the left-side vertices in order, end, the right-side vertices in reverse
   order) and its shoelace sum (Model/Winding.v, anchored by C18). *)
From Coq Require Import QArith.
From LV Require Import Base.Prelude Model.Bezier Model.Winding Model.Monotone.
Open Scope Q_scope.

(* twice the signed area of the triangle (p, q, r) *)
Definition area2 (p q r : qpt) : Q := vcross (psub q p) (psub r p).

Definition tri_area2 (P : Z -> qpt) (t : tri) : Q :=
  let '(a, b, c) := t in area2 (P a) (P b) (P c).

Definition sum_area2 (P : Z -> qpt) (ts : list tri) : Q :=
  fold_right (fun t acc => tri_area2 P t + acc) 0 ts.

(* [P] resolves every id of the input to its position *)
Definition resolves (P : Z -> qpt) (first : qpt * Z) (vs : list (qpt * Z * bool)) (last : qpt * Z) : Prop :=
  P (snd first) = fst first /\ P (snd last) = fst last /\
  forall v, In v vs -> P (snd (fst v)) = fst (fst v).

Definition lefts (vs : list (qpt * Z * bool)) : list qpt :=
  map (fun v => fst (fst v)) (filter (fun v => snd v) vs).
Definition rights (vs : list (qpt * Z * bool)) : list qpt :=
  map (fun v => fst (fst v)) (filter (fun v => negb (snd v)) vs).

Definition polygon_of (first : qpt * Z) (vs : list (qpt * Z * bool)) (last : qpt * Z) : subpoly :=
  (fst first, lefts vs ++ [fst last] ++ rev (rights vs)).

Definition polygon_area2 (first : qpt * Z) (vs : list (qpt * Z * bool)) (last : qpt * Z) : Q :=
  shoelace2 (sub_edges (polygon_of first vs last)).

(* the triangles of the basic tessellator before their orientation is normalised: the
   side-change fan emits (a, b, cur) when the new vertex is on the right and (b, a, cur) when it is
   on the left, whatever the sign of the cross product; the same-side pop loop is unchanged *)
Fixpoint side_change_tris_nat (cur : mv) (s : list mv) : list tri :=
  match s with
  | a :: ((b :: _) as r) =>
      (if m_left cur then (m_id b, m_id a, m_id cur) else (m_id a, m_id b, m_id cur))
      :: side_change_tris_nat cur r
  | _ => []
  end.

(* chain polygon handed to flush_side: its events in push order *)
Definition chain_area2 (pts : list qpt) : Q :=
  match pts with
  | [] => 0
  | p :: r => shoelace2 (sub_edges (p, r))
  end.

Definition monotone_vertex_nat (t : basic) (cur : mv) : basic :=
  let changed := negb (Bool.eqb (m_left cur) (m_left (b_prev t))) in
  if changed then
    mkBasic [cur; b_prev t] cur (b_tris t ++ side_change_tris_nat cur (rev (b_stack t)))
  else
    match b_stack t with
    | [] => mkBasic [cur] cur (b_tris t)
    | top :: rest =>
        let '(ts, lp, st) := pop_loop cur top rest in
        mkBasic (cur :: lp :: st) cur (b_tris t ++ ts)
    end.

Definition basic_run_nat (first : qpt * Z) (vs : list (qpt * Z * bool)) (last : qpt * Z) : list tri :=
  let t := fold_left (fun t v => monotone_vertex_nat t (mkMV (fst (fst v)) (snd (fst v)) (snd v))) vs
                     (basic_begin (fst first) (snd first)) in
  let t' := monotone_vertex_nat t (mkMV (fst last) (snd last) (negb (m_left (b_prev t)))) in
  b_tris t'.

(* same triangle up to the order of its first two vertices *)
Definition tri_same_or_swapped (x y : tri) : Prop :=
  let '(a, b, c) := x in y = (a, b, c) \/ y = (b, a, c).

(* sum of twice the signed areas of the triangles flush_side emits for a chain of positions *)
Definition flush_area2 (right : bool) (pts : list qpt) : Q :=
  fold_right (fun x acc => let '(a, b, c) := x in
     area2 (nth a pts (0, 0)) (nth b pts (0, 0)) (nth c pts (0, 0)) + acc) 0
     (flush_index_tris right (length pts)).
