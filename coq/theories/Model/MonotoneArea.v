(* Areas for the monotone triangulation stage (Model/Monotone.v): twice the signed area of an
   emitted triangle (ids resolved to positions), the polygon described by a begin / vertex* / end
   sequence (begin, the left-side vertices in order, end, the right-side vertices in reverse
   order) and its shoelace sum (Model/Winding.v, anchored by C18). *)
From Coq Require Import QArith.
From Coq Require Import Qminmax.
From LV Require Import Base.Prelude Base.F32 Gen.Constants Model.Bezier Model.Winding Model.Monotone.
Open Scope Q_scope.

(* twice the signed area of the triangle (p, q, r) *)
Definition area2 (p q r : qpt) : Q := vcross (psub q p) (psub r p).

Definition tri_area2 (P : Z -> qpt) (t : tri) : Q :=
  let '(a, b, c) := t in area2 (P a) (P b) (P c).

Definition sum_area2 (P : Z -> qpt) (ts : list tri) : Q :=
  fold_right (fun t acc => tri_area2 P t + acc) 0 ts.

(* [P] resolves every id of the input to its position *)
Definition resolves (P : Z -> qpt) (first : qpt * Z) (vs : list (qpt * Z * bool)) (last : qpt * Z) : Prop :=
  P (snd first) = fst first /\ P (snd last) = fst last /\
  forall v, In v vs -> P (snd (fst v)) = fst (fst v).

Definition lefts (vs : list (qpt * Z * bool)) : list qpt :=
  map (fun v => fst (fst v)) (filter (fun v => snd v) vs).
Definition rights (vs : list (qpt * Z * bool)) : list qpt :=
  map (fun v => fst (fst v)) (filter (fun v => negb (snd v)) vs).

Definition polygon_of (first : qpt * Z) (vs : list (qpt * Z * bool)) (last : qpt * Z) : subpoly :=
  (fst first, lefts vs ++ [fst last] ++ rev (rights vs)).

Definition polygon_area2 (first : qpt * Z) (vs : list (qpt * Z * bool)) (last : qpt * Z) : Q :=
  shoelace2 (sub_edges (polygon_of first vs last)).

(* the triangles of the basic tessellator before their orientation is normalised: the
   side-change fan emits (a, b, cur) when the new vertex is on the right and (b, a, cur) when it is
   on the left, whatever the sign of the cross product; the same-side pop loop is unchanged *)
Fixpoint side_change_tris_nat (cur : mv) (s : list mv) : list tri :=
  match s with
  | a :: ((b :: _) as r) =>
      (if m_left cur then (m_id b, m_id a, m_id cur) else (m_id a, m_id b, m_id cur))
      :: side_change_tris_nat cur r
  | _ => []
  end.

(* chain polygon handed to flush_side: its events in push order *)
Definition chain_area2 (pts : list qpt) : Q :=
  match pts with
  | [] => 0
  | p :: r => shoelace2 (sub_edges (p, r))
  end.

Definition monotone_vertex_nat (t : basic) (cur : mv) : basic :=
  let changed := negb (Bool.eqb (m_left cur) (m_left (b_prev t))) in
  if changed then
    mkBasic [cur; b_prev t] cur (b_tris t ++ side_change_tris_nat cur (rev (b_stack t)))
  else
    match b_stack t with
    | [] => mkBasic [cur] cur (b_tris t)
    | top :: rest =>
        let '(ts, lp, st) := pop_loop cur top rest in
        mkBasic (cur :: lp :: st) cur (b_tris t ++ ts)
    end.

Definition basic_run_nat (first : qpt * Z) (vs : list (qpt * Z * bool)) (last : qpt * Z) : list tri :=
  let t := fold_left (fun t v => monotone_vertex_nat t (mkMV (fst (fst v)) (snd (fst v)) (snd v))) vs
                     (basic_begin (fst first) (snd first)) in
  let t' := monotone_vertex_nat t (mkMV (fst last) (snd last) (negb (m_left (b_prev t)))) in
  b_tris t'.

(* same triangle up to the order of its first two vertices *)
Definition tri_same_or_swapped (x y : tri) : Prop :=
  let '(a, b, c) := x in y = (a, b, c) \/ y = (b, a, c).

(* sum of twice the signed areas of the triangles flush_side emits for a chain of positions *)
Definition flush_area2 (right : bool) (pts : list qpt) : Q :=
  fold_right (fun x acc => let '(a, b, c) := x in
     area2 (nth a pts (0, 0)) (nth b pts (0, 0)) (nth c pts (0, 0)) + acc) 0
     (flush_index_tris right (length pts)).

(* ------------------------------------------------------------------ the advanced tessellator over an arbitrary
   basic step [mvx] (monotone_vertex itself, or its un-normalised variant): a copy of adv_vertex / adv_end /
   adv_run of Model/Monotone.v with monotone_vertex replaced by the parameter *)
Section AdvGen.
Variable mvx : basic -> mv -> basic.

Definition adv_vertex_gen (a : advanced) (pos : qpt) (id : Z) (left : bool) : advanced :=
  let a1 :=
    if left then
      let l := set_ref_x (a_left a) (Qmax (px (se_ref (a_left a))) (px pos)) in
      let l := set_cref l (Qmax (se_cref_x l) (px (se_ref l))) in
      mkAdv (a_tess a) l (a_right a)
    else
      let r := set_ref_x (a_right a) (Qmin (px (se_ref (a_right a))) (px pos)) in
      let r := set_cref r (Qmin (se_cref_x r) (px (se_ref r))) in
      mkAdv (a_tess a) (a_left a) r in
  let dx := se_cref_x (a_right a1) - se_cref_x (a_left a1) in
  let '(side_ev, opp_ev) := if left then (a_left a1, a_right a1) else (a_right a1, a_left a1) in
  let dy := py pos - py (se_ref side_ev) in
  let sides_are_close := Qltb dx (f32_round (dy * f32_round sides_are_close_factor)) in
  let len := length (se_events side_ev) in
  let outward_turn :=
    if negb sides_are_close && Nat.leb 2 len then
      let sign := if left then 1 else - (1) in
      let prev := se_prev side_ev in
      let last := m_pos (se_last side_ev) in
      Qltb (vcross (psub prev last) (psub pos last) * sign) 0
    else false in
  let '(side_ev, opp_ev, tess) :=
    if outward_turn || sides_are_close then
      let must_flush_opp := is_after (m_pos (se_last side_ev)) (m_pos (se_last opp_ev)) in
      let '(side_ev, opp_ev, tess) :=
        if must_flush_opp then
          match flush_side opp_ev (negb left) (a_tess a1) with
          | (opp', t', Some v) =>
              (set_cref side_ev (px (se_ref side_ev)), opp', mvx t' v)
          | (opp', t', None) => (side_ev, opp', t')
          end
        else (side_ev, opp_ev, a_tess a1) in
      match flush_side side_ev left tess with
      | (side', t', Some v) =>
          (side', set_cref opp_ev (px (se_ref opp_ev)), mvx t' v)
      | (side', t', None) => (side', opp_ev, t')
      end
    else (side_ev, opp_ev, a_tess a1) in
  let side_ev :=
    set_ref_x side_ev (if left then Qmax (px (se_ref side_ev)) (px pos) else Qmin (px (se_ref side_ev)) (px pos)) in
  let side_ev := se_push side_ev (mkMV pos id left) in
  if left then mkAdv tess side_ev opp_ev else mkAdv tess opp_ev side_ev.

Definition adv_end_gen (a : advanced) (pos : qpt) (id : Z) : basic :=
  let '(l, t1, va) := flush_side (a_left a) true (a_tess a) in
  let '(r, t2, vb) := flush_side (a_right a) false t1 in
  let t3 :=
    match va, vb with
    | Some v, None | None, Some v => mvx t2 v
    | Some v1, Some v2 =>
        let '(v1, v2) := if is_after (m_pos v1) (m_pos v2) then (v2, v1) else (v1, v2) in
        mvx (mvx t2 v1) v2
    | None, None => t2
    end in
  let t' := mvx t3 (mkMV pos id (negb (m_left (b_prev t3)))) in
  mkBasic [] (b_prev t') (b_tris t').

Definition adv_run_gen (first : qpt * Z) (vs : list (qpt * Z * bool)) (last : qpt * Z) : list tri :=
  let a := fold_left (fun a v => adv_vertex_gen a (fst (fst v)) (snd (fst v)) (snd v)) vs
                     (adv_begin (fst first) (snd first)) in
  b_tris (adv_end_gen a (fst last) (snd last)).
End AdvGen.
