(* C07 - where fill vertices come from.
   (1) the parameter-range algebra of the sweep (fill.rs: remap_t_in_range; the cuts made by
       process_intersection / merge_coincident_edges / process_edges_above), over an abstract
       rounding function [rnd] (identity = exact arithmetic; f32_round = the code);
   (2) VertexSourceIterator (classification by range.start, consecutive duplicates removed) and
       FillVertex::as_endpoint_id over the raw sibling list;
   (3) FillVertex::interpolated_attributes, statement by statement, over [rnd];
   (4) the exact position a source designates. *)
From Coq Require Import QArith Qabs.
From LV Require Import Base.Prelude Base.F32 Model.Bezier.
Open Scope Q_scope.

(* ------------------------------------------------------------------ (1) ranges *)
(* fn remap_t_in_range(val, range): both branches *)
Definition remap_gen (rnd : Q -> Q) (val s e : Q) : Q :=
  if Qltb s e then rnd (s + rnd (val * rnd (e - s)))
  else rnd (e + rnd (rnd (1 - val) * rnd (s - e))).
Definition remap_t_in_range := remap_gen (fun x => x).
Definition remap_f32 := remap_gen f32_round.

(* a piece of the input edge A -> B: the part between parameters t0 and t1 (t0 > t1 for a piece the
   sweep traverses against the direction of the input edge) *)
Record piece := mkPiece { pc_a : qpt; pc_b : qpt; pc_t0 : Q; pc_t1 : Q }.
Definition pc_from (p : piece) : qpt := plerp (pc_a p) (pc_b p) (pc_t0 p).
Definition pc_to (p : piece) : qpt := plerp (pc_a p) (pc_b p) (pc_t1 p).

(* process_intersection / merge_coincident_edges / (since the fix) process_edges_above: cut at the
   local parameter v measured from the piece's start; the upper part keeps the start, the lower
   part starts at the remapped parameter *)
Definition cut_upper (p : piece) (v : Q) : piece :=
  mkPiece (pc_a p) (pc_b p) (pc_t0 p) (remap_t_in_range v (pc_t0 p) (pc_t1 p)).
Definition cut_lower (p : piece) (v : Q) : piece :=
  mkPiece (pc_a p) (pc_b p) (remap_t_in_range v (pc_t0 p) (pc_t1 p)) (pc_t1 p).

(* the discipline process_edges_above used before the fix: the lower part of an edge split at a
   vertex kept the parameter at which the upper part started, while its geometry started at the
   split point; a later cut at local parameter w of the lower part was reported as *)
Definition stale_report (p : piece) (v w : Q) : Q := remap_t_in_range w (pc_t0 p) (pc_t1 p).
(* whereas the point it designates is at local parameter w of the lower part *)
Definition stale_point (p : piece) (v w : Q) : qpt :=
  plerp (plerp (pc_from p) (pc_to p) v) (pc_to p) w.

(* ------------------------------------------------------------------ (2) source iterator *)
Inductive vsource := VEndpoint (id : Z) | VEdge (from to : Z) (t : Q).
Definition vsource_eqb (a b : vsource) : bool :=
  match a, b with
  | VEndpoint i, VEndpoint j => (i =? j)%Z
  | VEdge f1 t1 x1, VEdge f2 t2 x2 => (f1 =? f2)%Z && (t1 =? t2)%Z && Qeq_bool x1 x2
  | _, _ => false
  end.

(* one entry of the sibling list: from_id, to_id, range.start *)
Definition sibling := (Z * Z * Q)%type.
Definition classify (s : sibling) : vsource :=
  let '(f, t, x) := s in
  if Qeq_bool x 0 then VEndpoint f else if Qeq_bool x 1 then VEndpoint t else VEdge f t x.

(* VertexSourceIterator::next, iterated: skip entries equal to the previously returned one *)
Fixpoint sources_from (prev : option vsource) (l : list sibling) : list vsource :=
  match l with
  | [] => []
  | s :: r =>
      let v := classify s in
      match prev with
      | Some p => if vsource_eqb v p then sources_from prev r else v :: sources_from (Some v) r
      | None => v :: sources_from (Some v) r
      end
  end.
Definition sources (l : list sibling) : list vsource := sources_from None l.

(* FillVertex::as_endpoint_id: first sibling whose range starts at 0 or 1 *)
Fixpoint as_endpoint_id (l : list sibling) : option Z :=
  match l with
  | [] => None
  | (f, t, x) :: r => if Qeq_bool x 0 then Some f else if Qeq_bool x 1 then Some t else as_endpoint_id r
  end.
Definition first_endpoint (vs : list vsource) : option Z :=
  match find (fun v => match v with VEndpoint _ => true | _ => false end) vs with
  | Some (VEndpoint i) => Some i
  | _ => None
  end.

(* ------------------------------------------------------------------ (3)/(4) resolved sources *)
(* a source with the geometry and attributes it refers to *)
Inductive src :=
| SEnd (p : qpt) (a : list Q)
| SLine (pa pb : qpt) (t : Q) (aa ab : list Q)
| SQuad (pa pc pb : qpt) (t : Q) (aa ab : list Q)
| SCubic (pa c1 c2 pb : qpt) (t : Q) (aa ab : list Q).

Definition src_point (s : src) : qpt :=
  match s with
  | SEnd p _ => p
  | SLine pa pb t _ _ => plerp pa pb t
  | SQuad pa pc pb t _ _ => q_sample (mkQuad pa pc pb) t
  | SCubic pa c1 c2 pb t _ _ => c_sample (mkCubic pa c1 c2 pb) t
  end.

Fixpoint map2 {A B C} (f : A -> B -> C) (l1 : list A) (l2 : list B) : list C :=
  match l1, l2 with
  | x :: r1, y :: r2 => f x y :: map2 f r1 r2
  | _, _ => []
  end.

(* a[i] * (1.0 - t) + b[i] * t *)
Definition lerp_attr (rnd : Q -> Q) (t a b : Q) : Q := rnd (rnd (a * rnd (1 - t)) + rnd (b * t)).
Definition src_attrs (rnd : Q -> Q) (s : src) : list Q :=
  match s with
  | SEnd _ a => a
  | SLine _ _ t aa ab | SQuad _ _ _ t aa ab | SCubic _ _ _ _ t aa ab => map2 (lerp_attr rnd t) aa ab
  end.

(* FillVertex::interpolated_attributes: None where the code panics (no source) *)
Definition interp (rnd : Q -> Q) (ss : list src) : option (list Q) :=
  match ss with
  | [] => None
  | [SEnd _ a] => Some a                                       (* fast path *)
  | first :: rest =>
      let buf := fold_left (fun buf s => map2 (fun x y => rnd (x + y)) buf (src_attrs rnd s))
                           rest (src_attrs rnd first) in
      let div := inject_Z (Z.of_nat (length ss)) in
      Some (if Qltb 1 div then map (fun x => rnd (x / div)) buf else buf)
  end.

(* squared distance between two points *)
Definition pdist2 (a b : qpt) : Q :=
  (px a - px b) * (px a - px b) + (py a - py b) * (py a - py b).

(* a source is sound for a vertex position: endpoints exactly, edges within slack^2 *)
Definition src_sound (slack2 : Q) (pos : qpt) (s : src) : bool :=
  match s with
  | SEnd p _ => peqb p pos
  | _ => Qle_bool (pdist2 pos (src_point s)) slack2
  end.

(* attributes that are an affine function of position: c0 + c1 x + c2 y *)
Definition aff3 := (Q * Q * Q)%type.
Definition aff_at (c : aff3) (p : qpt) : Q := let '(c0, c1, c2) := c in c0 + c1 * px p + c2 * py p.
Definition attrs_at (cs : list aff3) (p : qpt) : list Q := map (fun c => aff_at c p) cs.
(* the attributes stored with the endpoints a source refers to are those of the affine function *)
Definition src_affine (cs : list aff3) (s : src) : Prop :=
  match s with
  | SEnd p a => a = attrs_at cs p
  | SLine pa pb _ aa ab => aa = attrs_at cs pa /\ ab = attrs_at cs pb
  | _ => False                                           (* curves: attributes are linear in t, not in position *)
  end.
