(* Round-to-nearest-even of a rational to the f32 grid (24-bit significand, normal range only:
   no subnormals, no overflow).  Used at exactly the places where a single inexact f32
   operation feeds a comparison in the modelled code (DESIGN.md section 3, regime R).
   Validated against Rust on every run (harness subcommand `f32`); part of the trusted base. *)
From Coq Require Import QArith Qabs Qround.
From LV Require Import Base.Prelude.
Open Scope Q_scope.

Definition pow2 (e : Z) : Q :=
  if (0 <=? e)%Z then inject_Z (2 ^ e) else / inject_Z (2 ^ (- e)).

Definition round_half_even (s : Q) : Z :=
  let fl := Qfloor s in
  let r := s - inject_Z fl in
  match Qcompare r (1 # 2) with
  | Lt => fl
  | Gt => (fl + 1)%Z
  | Eq => if Z.even fl then fl else (fl + 1)%Z
  end.

(* round to a binary floating-point grid with [prec] significand bits (24 = f32, 53 = f64) *)
Definition fp_round (prec : Z) (q : Q) : Q :=
  if Qeq_bool q 0 then 0
  else
    let a := Qabs q in
    let n := Qnum a in
    let d := Zpos (Qden a) in
    let e0 := (Z.log2 n - Z.log2 d - (prec - 1))%Z in
    let e := if Qle_bool (inject_Z (2 ^ prec)) (a * pow2 (- e0)) then (e0 + 1)%Z
             else if Qle_bool (inject_Z (2 ^ (prec - 1))) (a * pow2 (- e0)) then e0 else (e0 - 1)%Z in
    let m := round_half_even (a * pow2 (- e)) in
    let r := inject_Z m * pow2 e in
    Qred (if Qle_bool 0 q then r else - r).

Definition f32_round (q : Q) : Q := fp_round 24 q.
Definition f64_round (q : Q) : Q := fp_round 53 q.

(* the f32 literal 0.1 *)
Definition f32_0_1 : Q := 13421773 # 134217728.
