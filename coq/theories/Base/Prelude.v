(* Common imports and small list utilities shared by all models.
   No axioms, no proofs about the code here. *)
From Coq Require Export List ZArith NArith Arith Lia Bool.
Export ListNotations.

Arguments N.add : simpl never.
Arguments N.sub : simpl never.
Arguments N.mul : simpl never.
Arguments N.eqb : simpl never.
Arguments N.ltb : simpl never.
Arguments N.leb : simpl never.
Arguments Z.add : simpl never.
Arguments Z.sub : simpl never.
Arguments Z.mul : simpl never.
Arguments Z.eqb : simpl never.
Arguments Z.ltb : simpl never.
Arguments Z.leb : simpl never.

(* option monad notation *)
Definition obind {A B} (o : option A) (f : A -> option B) : option B :=
  match o with Some a => f a | None => None end.
Notation "'do' x <- e ; k" := (obind e (fun x => k))
  (at level 200, x pattern, e at level 100, k at level 200, right associativity).

Definition pt := (Z * Z)%type.

Definition pt_eqb (a b : pt) : bool := (fst a =? fst b)%Z && (snd a =? snd b)%Z.

Fixpoint list_eqb {A} (eqb : A -> A -> bool) (l1 l2 : list A) : bool :=
  match l1, l2 with
  | [], [] => true
  | x :: r1, y :: r2 => eqb x y && list_eqb eqb r1 r2
  | _, _ => false
  end.

Lemma pt_eqb_eq a b : pt_eqb a b = true <-> a = b.
Proof.
  destruct a as [ax ay], b as [bx by_]; unfold pt_eqb; cbn [fst snd].
  rewrite andb_true_iff, !Z.eqb_eq. split; [intros [-> ->]; reflexivity | intros H; inversion H; auto].
Qed.

Lemma list_eqb_eq {A} (eqb : A -> A -> bool) :
  (forall a b, eqb a b = true <-> a = b) ->
  forall l1 l2, list_eqb eqb l1 l2 = true <-> l1 = l2.
Proof.
  intros Heq; induction l1 as [|x r1 IH]; destruct l2 as [|y r2]; cbn [list_eqb];
    try (split; [discriminate | discriminate]); try tauto.
  rewrite andb_true_iff, Heq, IH. split; [intros [-> ->]; reflexivity | intros H; inversion H; auto].
Qed.
