(* C16 - flatten / transform adapters commute with building; attributes interpolate in t.
   The flattening points of each curve are an oracle constrained only by C09's structural
   guarantee (the last one is (to, 1)). *)
From LV Require Import Base.Prelude Model.Flatten Model.PathStore Model.PathSpec Proofs.C16_Adapters.

(* ---- flattening adapters ---- *)
Definition curve_ok {P T} (is_one : T -> bool) (pts : list (P * T)) (to : P) : Prop :=
  exists front tl, pts = front ++ [(to, tl)] /\ is_one tl = true /\
                   Forall (fun pt => is_one (snd pt) = false) front.
Definition ops_ok {P T A} (is_one : T -> bool) (ops : list (fop P T A)) : Prop :=
  Forall (fun o => match o with FCurve _ _ _ pts to _ => curve_ok is_one pts to | _ => True end) ops.

(* endpoints of the original program, in order (Begin / Line / curve end points) *)
Definition endpoints {P T A} (ops : list (fop P T A)) : list (P * list A) :=
  flat_map (fun o => match o with
                     | FBegin _ _ _ p a | FLine _ _ _ p a => [(p, a)]
                     | FCurve _ _ _ _ to a => [(to, a)]
                     | FEnd _ _ _ _ => [] end) ops.
Definition call_endpoint {P A} (c : fcall P A) : list (P * list A) :=
  match c with CBegin _ _ p a | CLine _ _ p a => [(p, a)] | CEnd _ _ _ => [] end.

(* the builder adapter emits only begin / line / end calls (by construction of [fcall]) and every
   original endpoint appears, exactly (position AND attributes), in order, among them *)
Fixpoint subseq {X} (s l : list X) : Prop :=
  match s, l with
  | [], _ => True
  | _ :: _, [] => False
  | x :: s', y :: l' => (x = y /\ subseq s' l') \/ subseq s l'
  end.
Theorem C16_flatten_keeps_endpoints : forall (P T A : Type) lerp is_one prev (ops : list (fop P T A)),
  ops_ok is_one ops ->
  subseq (endpoints ops) (flat_map call_endpoint (fb_run P T A lerp is_one prev ops)).
Proof. exact flatten_keeps_endpoints. Qed.

(* each point inserted while flattening a curve carries lerp(attributes of the curve's start,
   attributes of its end, t) - in particular right after begin (the stale-buffer defect fixed in the
   pinned tree); [prev0] = whatever the buffer held before is irrelevant once a sub-path began *)
Fixpoint attrs_spec {P T A} (lerp : A -> A -> T -> A) (is_one : T -> bool) (cur : list A) (ops : list (fop P T A))
  : list (list A) :=
  match ops with
  | [] => []
  | FBegin _ _ _ _ a :: r => a :: attrs_spec lerp is_one a r
  | FLine _ _ _ _ a :: r => a :: attrs_spec lerp is_one a r
  | FCurve _ _ _ pts _ a :: r =>
      map (fun pt => interp T A lerp is_one cur a (snd pt)) pts ++ attrs_spec lerp is_one a r
  | FEnd _ _ _ _ :: r => attrs_spec lerp is_one cur r
  end.
Definition call_attrs {P A} (c : fcall P A) : list (list A) :=
  match c with CBegin _ _ _ a | CLine _ _ _ a => [a] | CEnd _ _ _ => [] end.
Theorem C16_flatten_attrs_lerp : forall (P T A : Type) lerp is_one prev (ops : list (fop P T A)),
  flat_map call_attrs (fb_run P T A lerp is_one prev ops) = attrs_spec lerp is_one prev ops.
Proof. exact flatten_attrs_lerp. Qed.

(* the builder adapter and the iterator adapter emit the same positions (same oracle) *)
Definition call_pos {P A} (c : fcall P A) : option P :=
  match c with CLine _ _ p _ => Some p | _ => None end.
Theorem C16_flatten_builder_eq_iter : forall (P T A : Type) lerp is_one prev (ops : list (fop P T A)),
  map call_pos (fb_run P T A lerp is_one prev ops) = fi_run P T A ops.
Proof. exact flatten_builder_eq_iter. Qed.

(* ---- transforming: while building, while iterating, after storing: identical positions,
   for ANY function on points (no linearity needed) ---- *)
Definition tr_op (f : pt -> pt) (o : bop) : bop :=
  match o with
  | OBegin p a => OBegin (f p) a | OLine p a => OLine (f p) a
  | OQuad c p a => OQuad (f c) (f p) a | OCubic c1 c2 p a => OCubic (f c1) (f c2) (f p) a
  | OEnd c => OEnd c
  end.
Definition tr_event (f : pt -> pt) (e : attr_event) : attr_event :=
  map_event (fun ep => (f (fst ep), snd ep)) f e.
Definition tr_sub (f : pt -> pt) (s : subpath) : subpath :=
  mkSub (f (sp_at s)) (sp_attrs s)
        (map (fun e => match e with
                       | ELine p a => ELine (f p) a
                       | EQuad c p a => EQuad (f c) (f p) a
                       | ECubic c1 c2 p a => ECubic (f c1) (f c2) (f p) a end) (sp_edges s))
        (sp_close s).

Theorem C16_transform_three_ways : forall (f : pt -> pt) n prog, attrs_ok n prog ->
  (* building through the transforming builder, then reading *)
  iter_attr (build n (map (tr_op f) (ops_of prog)))
  (* = mapping the events of the untransformed stored path *)
  = option_map (map (tr_event f)) (iter_attr (build n (ops_of prog)))
  /\ iter_attr (build n (map (tr_op f) (ops_of prog))) = Some (spec_events (map (tr_sub f) prog)).
Proof. exact transform_three_ways. Qed.

Print Assumptions C16_flatten_keeps_endpoints.
Print Assumptions C16_flatten_attrs_lerp.
Print Assumptions C16_flatten_builder_eq_iter.
Print Assumptions C16_transform_three_ways.
