(* C02 (component level) - the monotone triangulation stage cuts a piece with n boundary
   vertices into exactly n-2 triangles made of its own, pairwise distinct, vertices.
   All statements hold for ARBITRARY begin / vertex* / end sequences (positions, sides and
   ids unconstrained), hence in particular for every y-monotone polygon. *)
From Coq Require Import QArith.
From LV Require Import Base.Prelude Base.F32 Model.Bezier Model.Winding Model.Monotone Model.MonotoneArea
                       Proofs.C02_Monotone Proofs.C02_Area Proofs.C02_AdvArea Gen.Functions Proofs.Gen_Functions.
Open Scope Q_scope.

Definition input_ids (first : qpt * Z) (vs : list (qpt * Z * bool)) (last : qpt * Z) : list Z :=
  snd first :: map (fun v => snd (fst v)) vs ++ [snd last].

Definition tri_ids_in (ids : list Z) (t : tri) : Prop :=
  let '(a, b, c) := t in In a ids /\ In b ids /\ In c ids.
Definition tri_distinct (t : tri) : Prop :=
  let '(a, b, c) := t in a <> b /\ b <> c /\ a <> c.

(* n vertices (begin + |vs| + end) give exactly n - 2 = |vs| triangles *)
Theorem C02_basic_count : forall first vs last,
  length (basic_run first vs last) = length vs.
Proof. exact basic_count. Qed.

Theorem C02_basic_ids : forall first vs last,
  Forall (tri_ids_in (input_ids first vs last)) (basic_run first vs last).
Proof. exact basic_ids. Qed.

Theorem C02_basic_ids_distinct : forall first vs last,
  NoDup (input_ids first vs last) -> Forall tri_distinct (basic_run first vs last).
Proof. exact basic_ids_distinct. Qed.

(* flush_side on a chain of len events: len - 2 triangles, indices in range and pairwise
   distinct; the explicit fuel (len) of the step-doubling loop is never exhausted *)
Theorem C02_flush_count : forall right len, (2 <= len)%nat ->
  length (flush_index_tris right len) = (len - 2)%nat.
Proof. exact flush_count. Qed.

Theorem C02_flush_indices : forall right len,
  Forall (fun x => let '(a, b, c) := x in
                   (a < len /\ b < len /\ c < len /\ a <> b /\ b <> c /\ a <> c)%nat)
         (flush_index_tris right len).
Proof. exact flush_indices. Qed.

Theorem C02_flush_fuel : forall right len extra,
  flush_levels right len 1 (len + extra) = flush_levels right len 1 len.
Proof. exact flush_fuel. Qed.

(* the tessellator actually used by the fill (AdvancedMonotoneTessellator) *)
Theorem C02_advanced_count : forall first vs last,
  length (adv_run first vs last) = length vs.
Proof. exact advanced_count. Qed.

Theorem C02_advanced_ids : forall first vs last,
  Forall (tri_ids_in (input_ids first vs last)) (adv_run first vs last).
Proof. exact advanced_ids. Qed.

(* ---------------------------------------------------------------- areas
   [P] resolves the ids to positions; [tri_area2] is twice the signed area of an emitted triangle;
   [polygon_area2] is the shoelace sum of the polygon described by the sequence (begin, the
   left-side vertices in order, end, the right-side vertices in reverse).  Everything below holds
   for ARBITRARY sequences - no monotonicity is assumed. *)

(* no flipped triangle: every triangle the basic tessellator emits has the same orientation *)
Theorem C02_basic_orientation : forall P first vs last, resolves P first vs last ->
  Forall (fun t => tri_area2 P t <= 0) (basic_run first vs last).
Proof. exact basic_orientation. Qed.

(* area conservation: before the orientation of the fan triangles is normalised, the triangles add
   up to the polygon's area exactly *)
Theorem C02_basic_area_conserved : forall P first vs last, resolves P first vs last ->
  sum_area2 P (basic_run_nat first vs last) == polygon_area2 first vs last.
Proof. exact basic_nat_conserved. Qed.

(* the emitted triangles are those, up to the order of the first two vertices *)
Theorem C02_basic_same_triangles : forall first vs last,
  Forall2 tri_same_or_swapped (basic_run_nat first vs last) (basic_run first vs last).
Proof. exact basic_nat_swapped. Qed.

(* hence the emitted triangles never leave a gap in the area sense: their total (unsigned) area
   is at least the polygon's ... *)
Theorem C02_basic_area_bound : forall P first vs last, resolves P first vs last ->
  sum_area2 P (basic_run first vs last) <= polygon_area2 first vs last /\
  sum_area2 P (basic_run first vs last) <= - polygon_area2 first vs last.
Proof. exact basic_area_bound. Qed.

(* ... and equals it exactly - no overlap in the area sense - when no fan triangle had to be flipped
   (the case of a properly oriented y-monotone polygon; checked per run) *)
Theorem C02_basic_area_exact : forall P first vs last, resolves P first vs last ->
  Forall (fun t => tri_area2 P t <= 0) (basic_run_nat first vs last) ->
  sum_area2 P (basic_run first vs last) == polygon_area2 first vs last.
Proof. exact basic_area_exact. Qed.

(* flush_side (advanced tessellator): the triangles of a pending chain add up to the chain
   polygon's area exactly, for ALL chains and lengths *)
Theorem C02_flush_area : forall right pts,
  flush_area2 right pts == (if right then - chain_area2 pts else chain_area2 pts).
Proof. exact flush_area. Qed.

(* ---- the tessellator the fill actually uses (AdvancedMonotoneTessellator): [adv_run_gen step] is adv_run with the
   basic step it delegates to made a parameter; instantiated with the real step it IS adv_run *)
Theorem C02_advanced_generic_is_advanced : forall first vs last,
  adv_run_gen monotone_vertex first vs last = adv_run first vs last.
Proof. exact adv_run_gen_is_adv_run. Qed.

(* area conservation for ALL sequences: flush_side's fans plus the (un-normalised) basic triangles add up to the
   polygon's shoelace sum exactly - whatever chains get flushed, whichever way sides_are_close decides *)
Theorem C02_advanced_area_conserved : forall P first vs last, resolves P first vs last ->
  sum_area2 P (adv_run_gen monotone_vertex_nat first vs last) == polygon_area2 first vs last.
Proof. exact adv_nat_conserved. Qed.

Theorem C02_advanced_same_triangles : forall first vs last,
  Forall2 tri_same_or_swapped (adv_run_gen monotone_vertex_nat first vs last) (adv_run first vs last).
Proof. exact adv_nat_swapped. Qed.

(* the emitted triangles add up exactly to the polygon when no un-normalised triangle is flipped *)
Theorem C02_advanced_area_exact : forall P first vs last, resolves P first vs last ->
  Forall (fun t => tri_area2 P t <= 0) (adv_run_gen monotone_vertex_nat first vs last) ->
  sum_area2 P (adv_run first vs last) == polygon_area2 first vs last.
Proof. exact adv_area_exact. Qed.

(* non-vacuity: a non-monotone sequence where the bound is strict, and a monotone one where it is exact *)
Example C02_example_area :
  let P1 := fun i : Z => match i with 0%Z => (0,0) | 1%Z => (5,1) | 2%Z => (-(3),2) | 4%Z => (2,-(2)) | 5%Z => (-(2),3)
                                    | 6%Z => (1,-(3)) | _ => (0,5) end in
  let vs1 := [((5,1), 1%Z, true); ((-(3),2), 2%Z, false); ((2,-(2)), 4%Z, false); ((-(2),3), 5%Z, true); ((1,-(3)), 6%Z, true)] in
  Qred (sum_area2 P1 (basic_run_nat ((0,0), 0%Z) vs1 ((0,5), 3%Z))) = 13 /\
  Qred (polygon_area2 ((0,0), 0%Z) vs1 ((0,5), 3%Z)) = 13 /\
  Qred (sum_area2 P1 (basic_run ((0,0), 0%Z) vs1 ((0,5), 3%Z))) = -(103) /\
  let P2 := fun i : Z => match i with 0%Z => (0,0) | 1%Z => (1,1) | 2%Z => (-(1),2) | _ => (0,3) end in
  let vs2 := [((1,1), 1%Z, false); ((-(1),2), 2%Z, true)] in
  Qred (sum_area2 P2 (basic_run ((0,0), 0%Z) vs2 ((0,3), 3%Z))) = -(6) /\
  Qred (polygon_area2 ((0,0), 0%Z) vs2 ((0,3), 3%Z)) = -(6).
Proof. vm_compute. repeat split; reflexivity. Qed.

Example C02_example :
  adv_run ((0,0), 0%Z) [((1,1), 1%Z, false); ((-(1),2), 2%Z, true)] ((0,3), 3%Z)
  = basic_run ((0,0), 0%Z) [((1,1), 1%Z, false); ((-(1),2), 2%Z, true)] ((0,3), 3%Z)
  /\ length (basic_run ((0,0), 0%Z) [((1,1), 1%Z, false); ((-(1),2), 2%Z, true)] ((0,3), 3%Z)) = 2%nat.
Proof. vm_compute. split; reflexivity. Qed.

(* the vertex order the advanced tessellator model uses (is_after) IS fill.rs's is_after, translated from the source on
   every run (Gen/Functions.v) *)
Theorem C02_is_after_is_source : forall a b, src_is_after a b = is_after a b.
Proof. exact src_is_after_is_model. Qed.

Print Assumptions C02_basic_count.
Print Assumptions C02_basic_ids.
Print Assumptions C02_basic_ids_distinct.
Print Assumptions C02_flush_count.
Print Assumptions C02_flush_indices.
Print Assumptions C02_flush_fuel.
Print Assumptions C02_advanced_count.
Print Assumptions C02_advanced_ids.
Print Assumptions C02_basic_orientation.
Print Assumptions C02_basic_area_conserved.
Print Assumptions C02_basic_same_triangles.
Print Assumptions C02_basic_area_bound.
Print Assumptions C02_basic_area_exact.
Print Assumptions C02_flush_area.
Print Assumptions C02_advanced_generic_is_advanced.
Print Assumptions C02_advanced_area_conserved.
Print Assumptions C02_advanced_same_triangles.
Print Assumptions C02_advanced_area_exact.
Print Assumptions C02_is_after_is_source.
