(* C02 (component level) - the monotone triangulation stage cuts a piece with n boundary
   vertices into exactly n-2 triangles made of its own, pairwise distinct, vertices.
   All statements hold for ARBITRARY begin / vertex* / end sequences (positions, sides and
   ids unconstrained), hence in particular for every y-monotone polygon. *)
From Coq Require Import QArith.
From LV Require Import Base.Prelude Base.F32 Model.Bezier Model.Monotone Proofs.C02_Monotone.
Open Scope Q_scope.

Definition input_ids (first : qpt * Z) (vs : list (qpt * Z * bool)) (last : qpt * Z) : list Z :=
  snd first :: map (fun v => snd (fst v)) vs ++ [snd last].

Definition tri_ids_in (ids : list Z) (t : tri) : Prop :=
  let '(a, b, c) := t in In a ids /\ In b ids /\ In c ids.
Definition tri_distinct (t : tri) : Prop :=
  let '(a, b, c) := t in a <> b /\ b <> c /\ a <> c.

(* n vertices (begin + |vs| + end) give exactly n - 2 = |vs| triangles *)
Theorem C02_basic_count : forall first vs last,
  length (basic_run first vs last) = length vs.
Proof. exact basic_count. Qed.

Theorem C02_basic_ids : forall first vs last,
  Forall (tri_ids_in (input_ids first vs last)) (basic_run first vs last).
Proof. exact basic_ids. Qed.

Theorem C02_basic_ids_distinct : forall first vs last,
  NoDup (input_ids first vs last) -> Forall tri_distinct (basic_run first vs last).
Proof. exact basic_ids_distinct. Qed.

(* flush_side on a chain of len events: len - 2 triangles, indices in range and pairwise
   distinct; the explicit fuel (len) of the step-doubling loop is never exhausted *)
Theorem C02_flush_count : forall right len, (2 <= len)%nat ->
  length (flush_index_tris right len) = (len - 2)%nat.
Proof. exact flush_count. Qed.

Theorem C02_flush_indices : forall right len,
  Forall (fun x => let '(a, b, c) := x in
                   (a < len /\ b < len /\ c < len /\ a <> b /\ b <> c /\ a <> c)%nat)
         (flush_index_tris right len).
Proof. exact flush_indices. Qed.

Theorem C02_flush_fuel : forall right len extra,
  flush_levels right len 1 (len + extra) = flush_levels right len 1 len.
Proof. exact flush_fuel. Qed.

(* the tessellator actually used by the fill (AdvancedMonotoneTessellator) *)
Theorem C02_advanced_count : forall first vs last,
  length (adv_run first vs last) = length vs.
Proof. exact advanced_count. Qed.

Theorem C02_advanced_ids : forall first vs last,
  Forall (tri_ids_in (input_ids first vs last)) (adv_run first vs last).
Proof. exact advanced_ids. Qed.

Example C02_example :
  adv_run ((0,0), 0%Z) [((1,1), 1%Z, false); ((-(1),2), 2%Z, true)] ((0,3), 3%Z)
  = basic_run ((0,0), 0%Z) [((1,1), 1%Z, false); ((-(1),2), 2%Z, true)] ((0,3), 3%Z)
  /\ length (basic_run ((0,0), 0%Z) [((1,1), 1%Z, false); ((-(1),2), 2%Z, true)] ((0,3), 3%Z)) = 2%nat.
Proof. vm_compute. split; reflexivity. Qed.

Print Assumptions C02_basic_count.
Print Assumptions C02_basic_ids.
Print Assumptions C02_basic_ids_distinct.
Print Assumptions C02_flush_count.
Print Assumptions C02_flush_indices.
Print Assumptions C02_flush_fuel.
Print Assumptions C02_advanced_count.
Print Assumptions C02_advanced_ids.
