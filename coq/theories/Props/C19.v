(* C19 - measuring, sampling, walking by distance: the cursor / table logic of PathSampler and the
   event logic of PathWalker. *)
From Coq Require Import QArith.
From LV Require Import Base.Prelude Model.Bezier Model.Measure Proofs.C19_Measure.
Open Scope Q_scope.

(* ---- sampler cursor ---- *)

(* For every well-formed table, every starting cursor, every distance in [0, length] and whichever
   branch the cost heuristic takes: the loops terminate, no table index is out of range, and the
   cursor ends in bounds (edges[c-1].distance <= dist <= edges[c].distance). *)
Theorem C19_move_cursor_in_bounds : forall tbl kinds cursor dist binary,
  table_ok tbl kinds = true -> (cursor < length tbl)%nat ->
  0 <= dist -> dist <= table_length tbl ->
  exists c, move_cursor tbl cursor dist binary = Some c /\ (c < length tbl)%nat /\
            in_bounds tbl c dist = Some true.
Proof. exact move_cursor_in_bounds. Qed.

(* the linear and the binary search branches give the same cursor *)
Theorem C19_branches_agree : forall tbl kinds cursor dist,
  table_ok tbl kinds = true -> (cursor < length tbl)%nat ->
  0 <= dist -> dist <= table_length tbl ->
  move_cursor tbl cursor dist true = move_cursor tbl cursor dist false.
Proof. exact branches_agree. Qed.

(* the shape of the tables PathMeasurements::initialize builds: row 0 is the first Begin, a Begin
   row repeats the distance of the row before it, kinds are Begin (0) or segment (1), and the path
   has positive length *)
Definition kind_of (tbl : list mrow) (kinds : list Z) (i : nat) : Z :=
  match nth_error tbl i with
  | Some r => nth (r_index r) kinds 2%Z
  | None => 2%Z
  end.
Definition table_shape_ok (tbl : list mrow) (kinds : list Z) : Prop :=
  table_ok tbl kinds = true /\ kind_of tbl kinds 0 = 0%Z /\
  (forall i, (i < length tbl)%nat -> kind_of tbl kinds i = 0%Z \/ kind_of tbl kinds i = 1%Z) /\
  (forall i r p, nth_error tbl (S i) = Some r -> nth_error tbl i = Some p ->
                 kind_of tbl kinds (S i) = 0%Z -> r_dist r == r_dist p) /\
  0 < table_length tbl.

(* any sequence of sample queries on one sampler (cursor state carried from query to query): every
   query succeeds, stays in bounds and selects a real segment - never a Begin row (the
   unreachable!() of sample_impl is unreachable) *)
Fixpoint queries_ok (tbl : list mrow) (kinds : list Z) (cursor : nat) (qs : list (Q * bool)) : Prop :=
  match qs with
  | [] => True
  | (d, binary) :: r =>
      exists c idx, sample_cursor tbl kinds cursor d binary = Some (c, idx, 1%Z) /\
                    in_bounds tbl c d = Some true /\ queries_ok tbl kinds c r
  end.
Theorem C19_query_sequences_select_segments : forall tbl kinds qs,
  table_shape_ok tbl kinds ->
  Forall (fun q => 0 <= fst q /\ fst q <= table_length tbl) qs ->
  queries_ok tbl kinds 0 qs.
Proof. exact query_sequences_select_segments. Qed.

(* with strictly increasing distances and a distance that is not a table entry, the cursor in
   bounds is unique: the answer does not depend on the query history *)
Theorem C19_in_bounds_unique : forall tbl kinds c1 c2 dist,
  table_ok tbl kinds = true ->
  (forall i a b, nth_error tbl i = Some a -> nth_error tbl (S i) = Some b -> r_dist a < r_dist b) ->
  (forall r, In r tbl -> ~ r_dist r == dist) ->
  in_bounds tbl c1 dist = Some true -> in_bounds tbl c2 dist = Some true -> c1 = c2.
Proof. exact in_bounds_unique. Qed.

(* ---- walker ---- *)
Definition wevents (ds : list Q) (start : Q) (pattern : list Q) : list (nat * Q * Q) :=
  walk_edges 0 ds (mkW 0 start 0 pattern false).

(* the k-th event is reported at the cumulative distance start + p_0 + ... + p_(k-1) *)
Theorem C19_walk_advancements : forall ds start pattern k e,
  nth_error (wevents ds start pattern) k = Some e ->
  snd e == start + fold_right Qplus 0 (firstn k pattern).
Proof. exact walk_advancements. Qed.

(* ... and it is AT that distance along the polyline: (length of the edges before edge j) + x * d_j,
   for positive edge lengths, a non-negative start and positive pattern distances *)
Theorem C19_walk_positions : forall ds start pattern j x adv,
  Forall (fun d => 0 < d) ds -> 0 <= start -> Forall (fun p => 0 < p) pattern ->
  In (j, x, adv) (wevents ds start pattern) ->
  fold_right Qplus 0 (firstn j ds) + x * nth j ds 0 == adv /\ 0 <= x /\ x <= 1.
Proof. exact walk_positions. Qed.

(* at most one event per requested distance, plus the first one *)
Theorem C19_walk_count : forall ds start pattern,
  (length (wevents ds start pattern) <= S (length pattern))%nat.
Proof. exact walk_count. Qed.

Example C19_example :
  (* two edges of length 5, start 1, a pattern asking for 2 each time: events at 1, 3, 5, 7, 9 *)
  map (fun e => (fst (fst e), Qred (snd e))) (wevents [5; 5] 1 [2; 2; 2; 2; 2])
  = [(0%nat, 1); (0%nat, 3); (0%nat, 5); (1%nat, 7); (1%nat, 9)].
Proof. vm_compute. reflexivity. Qed.

Print Assumptions C19_move_cursor_in_bounds.
Print Assumptions C19_branches_agree.
Print Assumptions C19_query_sequences_select_segments.
Print Assumptions C19_in_bounds_unique.
Print Assumptions C19_walk_advancements.
Print Assumptions C19_walk_positions.
Print Assumptions C19_walk_count.
