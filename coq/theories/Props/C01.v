(* C01 (and the system-level clauses of C02, C03, C06, C18): soundness of the region comparator.
   What is proved: the decision made for a scanned horizontal line holds for EVERY point of that
   line (infinitely many), and every witness the checker reports is a genuine violation; and the SLAB
   LIFT: what is decided at the cell representatives of the middle line of a slab (two consecutive event
   ordinates: no vertex in between, spanning edges in a consistent order) holds at every point strictly
   inside the slab, so that lines + slabs + the trivial outside decide EVERY POINT OF THE PLANE.  Which
   paths are fed to the checker is per-run validation (DESIGN.md section 4). *)
From Coq Require Import QArith Qminmax Qabs.
From LV Require Import Base.Prelude Model.Bezier Model.Winding Checker.Region Checker.Slab Proofs.C01_Region Proofs.C01_Slab Gen.Functions Proofs.Gen_Functions.
Open Scope Q_scope.

(* the squared distance to a segment is the minimum over the segment *)
Definition seg_point (a b : qpt) (s : Q) : qpt := (px a + s * (px b - px a), py a + s * (py b - py a)).
Theorem C01_dist2_spec : forall p a b,
  (forall s, 0 <= s -> s <= 1 -> dist2 p a b <= norm2 (psub p (seg_point a b s))) /\
  (exists s, 0 <= s /\ s <= 1 /\ dist2 p a b == norm2 (psub p (seg_point a b s))).
Proof. exact dist2_spec. Qed.

(* the tolerance band of one edge is convex *)
Theorem C01_band_convex : forall tol2 p q e s, 0 <= s -> s <= 1 ->
  near_edge tol2 p e = true -> near_edge tol2 q e = true ->
  near_edge tol2 (px p + s * (px q - px p), py p + s * (py q - py p)) e = true.
Proof. exact band_convex. Qed.

Theorem C01_farb_spec : forall tol2 es p, farb tol2 es p = true <-> far tol2 es p.
Proof. exact farb_spec. Qed.

(* both sides of the property are constant on an interval that contains no breakpoint in its
   interior or at its left end: (lo, hi] *)
Theorem C01_constant_between_breakpoints : forall r es ts y lo hi x,
  lo < x -> x <= hi ->
  (forall b, In b (breakpoints y es ts) -> b <= lo \/ hi <= b) ->
  covers ts (x, y) = covers ts (hi, y) /\ inside r es (x, y) = inside r es (hi, y).
Proof. exact constant_between_breakpoints. Qed.

(* SOUNDNESS for a whole line: if the scan of the line y leaves no unaccepted interval, the
   property holds at every point (x, y) of the line *)
Theorem C01_line_sound : forall r tol2 es ts y, 0 <= tol2 ->
  check_line r tol2 es ts y = [] ->
  forall x, fill_ok_at r tol2 es ts (x, y).
Proof. exact line_sound. Qed.

(* every reported witness is a genuine violation: far from the outline, and covered xor inside *)
Theorem C01_witness_sound : forall r tol2 es ts y iv p,
  witness_in r tol2 es ts y iv = Some p ->
  far tol2 es p /\ covers ts p <> inside r es p.
Proof. exact witness_sound. Qed.

(* sorting keeps the elements and orders them *)
Theorem C01_sort_q_spec : forall l,
  (forall x, In x (sort_q l) <-> In x l) /\
  (forall i j a b, (i < j)%nat -> nth_error (sort_q l) i = Some a -> nth_error (sort_q l) j = Some b -> a <= b).
Proof. exact sort_q_spec. Qed.

Example C01_square_ok :
  (* unit square outline, two triangles covering it: every scanned line is accepted *)
  check_region EvenOdd (1 # 100) [((0,0),(1,0)); ((1,0),(1,1)); ((1,1),(0,1)); ((0,1),(0,0))]
               [((0,0),(1,0),(1,1)); ((0,0),(1,1),(0,1))] = [].
Proof. vm_compute. reflexivity. Qed.
Example C01_square_hole_detected :
  (* one triangle missing: a witness point is produced *)
  exists y iv p, In (y, iv, Some p)
    (check_region EvenOdd (1 # 100) [((0,0),(1,0)); ((1,0),(1,1)); ((1,1),(0,1)); ((0,1),(0,0))]
                  [((0,0),(1,0),(1,1))]).
Proof. vm_compute. do 3 eexists. left. reflexivity. Qed.

(* ---------------------------------------------------------------- the slab lift (Checker/Slab.v)
   [check_slab] looks at finitely many representatives on the middle line of the slab y0 < y < y1; if it accepts,
   the property holds at EVERY point (x, y) of the open slab. *)
Theorem C01_slab_sound : forall r tol2 es ts y0 y1,
  check_slab r tol2 es ts y0 y1 = true ->
  forall x y, y0 < y -> y < y1 -> fill_ok_at r tol2 es ts (x, y).
Proof. exact slab_sound. Qed.

(* the same for "covered at most once" (system-level clause of C02) *)
Theorem C01_slab_overlap_sound : forall tol2 es ts y0 y1,
  check_slab_overlap tol2 es ts y0 y1 = true ->
  forall x y, y0 < y -> y < y1 -> far tol2 es (x, y) -> (cover_count ts (x, y) <= 1)%nat.
Proof. exact slab_overlap_sound. Qed.

(* THE WHOLE PLANE: [ys] sorted, containing every vertex ordinate (both checked by [check_plane]); every line of
   [ys] accepted by [check_line], every slab between consecutive ones by [check_slab]: then the fill is right at
   every point p of the plane (covered iff inside under the fill rule, unless within the tolerance of the outline) *)
Theorem C01_plane_sound : forall r tol2 es ts ys, 0 <= tol2 ->
  check_plane r tol2 es ts ys = true ->
  forall p, fill_ok_at r tol2 es ts p.
Proof. exact plane_sound. Qed.

(* non-vacuity: the unit square cut into two triangles is accepted on the whole plane; with a gap it is not; the
   bow-tie needs the ordinate of its crossing as an event *)
Example C01_example_plane :
  let sq : list edge := [((0,0),(4,0)); ((4,0),(4,4)); ((4,4),(0,4)); ((0,4),(0,0))] in
  let ok : list triangle := [((0,0),(4,0),(4,4)); ((0,0),(4,4),(0,4))] in
  let gap : list triangle := [((0,0),(4,0),(4,4)); ((0,0),(3,4),(0,4))] in
  let bow : list edge := [((0,0),(4,4)); ((4,4),(4,0)); ((4,0),(0,4)); ((0,4),(0,0))] in
  let tbow : list triangle := [((0,0),(2,2),(0,4)); ((4,0),(4,4),(2,2))] in
  check_plane EvenOdd (1#100) sq ok (event_ys sq ok) = true /\
  check_plane EvenOdd (1#100) sq gap (event_ys sq gap) = false /\
  event_ys bow tbow = [0; 2; 4] /\
  check_plane EvenOdd (1#100) bow tbow (event_ys bow tbow) = true /\
  check_plane EvenOdd (1#100) bow tbow [0; 4] = false.
Proof. vm_compute. repeat split; reflexivity. Qed.

(* the two position orders of the sweep, translated from fill.rs on every run (Gen/Functions.v), tell the same story:
   compare_positions is Greater exactly when is_after, Less exactly when the other point is after, Equal exactly on
   equal coordinates - a total order on positions (y first, then x) *)
Theorem C01_sweep_order_consistent : forall a b,
  (src_compare_positions a b = Gt <-> src_is_after a b = true) /\
  (src_compare_positions a b = Lt <-> src_is_after b a = true) /\
  (src_compare_positions a b = Eq <-> px a == px b /\ py a == py b).
Proof. exact src_sweep_order_consistent. Qed.

Print Assumptions C01_dist2_spec.
Print Assumptions C01_band_convex.
Print Assumptions C01_farb_spec.
Print Assumptions C01_constant_between_breakpoints.
Print Assumptions C01_line_sound.
Print Assumptions C01_witness_sound.
Print Assumptions C01_sort_q_spec.
Print Assumptions C01_slab_sound.
Print Assumptions C01_slab_overlap_sound.
Print Assumptions C01_plane_sound.
Print Assumptions C01_sweep_order_consistent.
