(* C11 - bounding boxes and extrema are conservative and tight; monotone splits hold.
   Statements per coordinate (x and y are treated identically by the code). *)
From Coq Require Import QArith Qminmax.
From LV Require Import Base.Prelude Model.Bezier Model.LineInter Proofs.C11_Extrema Gen.Functions Proofs.Gen_Geom Proofs.Gen_GeomProps Proofs.Gen_Geom2.
Open Scope Q_scope.

(* The square-root oracle assumed for the cubic root finder: only at the one discriminant the code
   passes to sqrt, [sq] must return a square root of it.  (A hypothesis "for every d" would be
   unsatisfiable over Q - Proofs/C11_SqrtOracle.v proves that - and make the theorems vacuous; the
   pointwise form is met by every curve whose derivative has a perfect-square discriminant, see the
   Example below.  Curves with an irrational discriminant root are outside this rational model.) *)
Definition c_disc (p0 p1 p2 p3 : Q) : Q :=
  6 * (p2 - 2 * p1 + p0) * (6 * (p2 - 2 * p1 + p0))
  - 4 * (3 * (p3 + 3 * (p1 - p2) - p0)) * (3 * (p1 - p0)).
(* 0 <= sq d (true of Rust's sqrt) is needed by the numerically stable root formula, for q <> 0:
   see cubic_extrema_needs_nonneg_sqrt in Proofs/C11_Cubic.v *)
Definition sqrt_ok_at (sq : Q -> Q) (d : Q) : Prop := 0 <= d -> 0 <= sq d /\ sq d * sq d == d.

(* a chain of parameter ranges from s to e: each starts where the previous ended, strictly increasing *)
Fixpoint chain (s : Q) (l : list (Q * Q)) (e : Q) : Prop :=
  match l with
  | [] => s == e
  | (a, b) :: r => a == s /\ a < b /\ chain b r e
  end.

(* ---- quadratic ---- *)
Theorem C11_quad_extremum_sound : forall f c0 t_ t,
  q_local_extremum f c0 t_ = Some t -> 0 < t /\ t < 1 /\ q_dcoord f c0 t_ t == 0.
Proof. exact quad_extremum_sound. Qed.

Theorem C11_quad_extremum_complete : forall f c0 t_ t,
  0 < t -> t < 1 -> q_dcoord f c0 t_ t == 0 -> ~ (f - 2 * c0 + t_ == 0) ->
  exists t', q_local_extremum f c0 t_ = Some t' /\ t' == t.
Proof. exact quad_extremum_complete. Qed.

Theorem C11_quad_dcoord_is_derivative : forall f c0 t_ t h,
  q_coord f c0 t_ (t + h) - q_coord f c0 t_ t == h * q_dcoord f c0 t_ t + h * h * (f - 2 * c0 + t_).
Proof. exact quad_dcoord_is_derivative. Qed.

Theorem C11_quad_none_monotone : forall f c0 t_, q_local_extremum f c0 t_ = None ->
  (forall s u, 0 <= s -> s <= u -> u <= 1 -> q_coord f c0 t_ s <= q_coord f c0 t_ u) \/
  (forall s u, 0 <= s -> s <= u -> u <= 1 -> q_coord f c0 t_ u <= q_coord f c0 t_ s).
Proof. exact quad_none_monotone. Qed.

Theorem C11_quad_range_contains : forall f c0 t_ t, 0 <= t -> t <= 1 ->
  fst (q_bounding_range f c0 t_) <= q_coord f c0 t_ t /\
  q_coord f c0 t_ t <= snd (q_bounding_range f c0 t_).
Proof. exact quad_range_contains. Qed.

(* tight: both ends of the range are values of the coordinate at a parameter in [0,1] *)
Theorem C11_quad_range_tight : forall f c0 t_,
  (0 <= q_minimum_t f c0 t_ /\ q_minimum_t f c0 t_ <= 1) /\
  (0 <= q_maximum_t f c0 t_ /\ q_maximum_t f c0 t_ <= 1) /\
  fst (q_bounding_range f c0 t_) == q_coord f c0 t_ (q_minimum_t f c0 t_) /\
  snd (q_bounding_range f c0 t_) == q_coord f c0 t_ (q_maximum_t f c0 t_).
Proof. exact quad_range_tight. Qed.

Theorem C11_quad_fast_contains_exact : forall f c0 t_,
  fst (q_fast_bounding_range f c0 t_) <= fst (q_bounding_range f c0 t_) /\
  snd (q_bounding_range f c0 t_) <= snd (q_fast_bounding_range f c0 t_).
Proof. exact quad_fast_contains_exact. Qed.

Theorem C11_quad_monotonic_ranges_chain : forall c, chain 0 (q_monotonic_ranges c) 1.
Proof. exact quad_monotonic_ranges_chain. Qed.

(* after the split every piece is monotone in x and in y ... *)
Theorem C11_quad_pieces_monotone : forall c p, In p (q_monotonic_pieces c) ->
  q_local_x_extremum_t p = None /\ q_local_y_extremum_t p = None.
Proof. exact quad_pieces_monotone. Qed.

(* ... and, in exact arithmetic, the clamp of the control point is the identity, so the
   pieces are exactly the sub-ranges of the curve (which retrace it, C10_quad_split_range) *)
Definition quad_eq (a b : quad) : Prop :=
  q_from a =p= q_from b /\ q_ctrl a =p= q_ctrl b /\ q_to a =p= q_to b.
Theorem C11_quad_pieces_retrace : forall c,
  Forall2 (fun r p => quad_eq p (q_split_range c (fst r) (snd r)))
          (q_monotonic_ranges c) (q_monotonic_pieces c).
Proof. exact quad_pieces_retrace. Qed.

(* ---- cubic ---- *)
Theorem C11_cubic_dpoly_is_derivative : forall p0 p1 p2 p3 t h,
  c_coord p0 p1 p2 p3 (t + h) - c_coord p0 p1 p2 p3 t
  == h * c_dpoly p0 p1 p2 p3 t
     + h * h * (3 * ((p2 - 2 * p1 + p0) * (1 - t) + (p3 - 2 * p2 + p1) * t))
     + h * h * h * (p3 - 3 * p2 + 3 * p1 - p0).
Proof. exact cubic_dpoly_is_derivative. Qed.

Theorem C11_cubic_extrema_sound : forall sq p0 p1 p2 p3 t, sqrt_ok_at sq (c_disc p0 p1 p2 p3) ->
  In t (c_local_extrema sq p0 p1 p2 p3) -> 0 < t /\ t < 1 /\ c_dpoly p0 p1 p2 p3 t == 0.
Proof. exact cubic_extrema_sound_at. Qed.

Theorem C11_cubic_extrema_complete : forall sq p0 p1 p2 p3 t, sqrt_ok_at sq (c_disc p0 p1 p2 p3) ->
  0 < t -> t < 1 -> c_dpoly p0 p1 p2 p3 t == 0 ->
  ~ (p3 + 3 * (p1 - p2) - p0 == 0 /\ p2 - 2 * p1 + p0 == 0) ->
  exists t', In t' (c_local_extrema sq p0 p1 p2 p3) /\ t' == t.
Proof. exact cubic_extrema_complete_at. Qed.

Theorem C11_cubic_range_tight : forall sq p0 p1 p2 p3,
  (0 <= c_minimum_t sq p0 p1 p2 p3 /\ c_minimum_t sq p0 p1 p2 p3 <= 1) /\
  (0 <= c_maximum_t sq p0 p1 p2 p3 /\ c_maximum_t sq p0 p1 p2 p3 <= 1).
Proof. intros sq p0 p1 p2 p3. exact (cubic_range_tight_any sq p0 p1 p2 p3). Qed.

Theorem C11_cubic_range_contains : forall sq p0 p1 p2 p3 t, sqrt_ok_at sq (c_disc p0 p1 p2 p3) ->
  0 <= t -> t <= 1 ->
  fst (c_bounding_range sq p0 p1 p2 p3) <= c_coord p0 p1 p2 p3 t /\
  c_coord p0 p1 p2 p3 t <= snd (c_bounding_range sq p0 p1 p2 p3).
Proof. exact cubic_range_contains_at. Qed.

Theorem C11_cubic_fast_contains : forall p0 p1 p2 p3 t, 0 <= t -> t <= 1 ->
  fst (c_fast_bounding_range p0 p1 p2 p3) <= c_coord p0 p1 p2 p3 t /\
  c_coord p0 p1 p2 p3 t <= snd (c_fast_bounding_range p0 p1 p2 p3).
Proof. exact cubic_fast_contains. Qed.

(* non-vacuity: a concrete cubic coordinate (derivative roots 1/4 and 3/4) meets the hypothesis with the
   oracle returning the exact root of its discriminant, and the model then reports both extrema *)
Example C11_sqrt_hypothesis_met :
  sqrt_ok_at (fun _ => 72) (c_disc 0 9 (-(6)) 3) /\
  Forall2 Qeq (c_local_extrema (fun _ => 72) 0 9 (-(6)) 3) [1 # 4; 3 # 4].
Proof.
  split; [intros _; split; [discriminate | vm_compute; reflexivity] | vm_compute; repeat constructor].
Qed.


(* the quadratic's local extremum as regenerated from quadratic_bezier.rs on every run (tools/rs2coq.py) *)
Theorem C11_quad_local_extremum_is_source : forall c,
  src_quad_local_x_extremum_t c = q_local_x_extremum_t c /\ src_quad_local_y_extremum_t c = q_local_y_extremum_t c.
Proof. intro c. split; [exact (src_quad_local_x_extremum_t_is_model c)|exact (src_quad_local_y_extremum_t_is_model c)]. Qed.

(* x / y_maximum_t, x / y_minimum_t, bounding_range_x / y and fast_bounding_range_x / y of the quadratic, regenerated from the
   source (if-let blocks with fall-through), ARE the models; and on the generated functions: the exact box contains every
   point of the curve and lies within the fast box *)
Theorem C11_quad_extrema_are_source : forall c,
  src_quad_x_maximum_t c = q_maximum_t (px (q_from c)) (px (q_ctrl c)) (px (q_to c)) /\
  src_quad_x_minimum_t c = q_minimum_t (px (q_from c)) (px (q_ctrl c)) (px (q_to c)) /\
  src_quad_y_maximum_t c = q_maximum_t (py (q_from c)) (py (q_ctrl c)) (py (q_to c)) /\
  src_quad_y_minimum_t c = q_minimum_t (py (q_from c)) (py (q_ctrl c)) (py (q_to c)) /\
  src_quad_bounding_range_x c = q_bounding_range_x c /\ src_quad_bounding_range_y c = q_bounding_range_y c /\
  src_quad_fast_bounding_range_x c = q_fast_bounding_range (px (q_from c)) (px (q_ctrl c)) (px (q_to c)) /\
  src_quad_fast_bounding_range_y c = q_fast_bounding_range (py (q_from c)) (py (q_ctrl c)) (py (q_to c)).
Proof. exact src_quad_extrema_are_model. Qed.

Theorem C11_src_quad_box_contains_curve : forall c t, 0 <= t -> t <= 1 ->
  (fst (src_quad_bounding_range_x c) <= px (src_quad_sample c t) /\ px (src_quad_sample c t) <= snd (src_quad_bounding_range_x c)) /\
  (fst (src_quad_bounding_range_y c) <= py (src_quad_sample c t) /\ py (src_quad_sample c t) <= snd (src_quad_bounding_range_y c)).
Proof. exact src_quad_box_contains_curve. Qed.

Theorem C11_src_quad_fast_box_contains_exact : forall c,
  fst (src_quad_fast_bounding_range_x c) <= fst (src_quad_bounding_range_x c) /\
  snd (src_quad_bounding_range_x c) <= snd (src_quad_fast_bounding_range_x c) /\
  fst (src_quad_fast_bounding_range_y c) <= fst (src_quad_bounding_range_y c) /\
  snd (src_quad_bounding_range_y c) <= snd (src_quad_fast_bounding_range_y c).
Proof. exact src_quad_fast_box_contains_exact. Qed.


(* CubicBezierSegment::fast_bounding_range_x / y regenerated from cubic_bezier.rs on every run (tools/rs2coq.py): they ARE the
   model's fast range, they contain the curve evaluated by the regenerated `x` / `y` at every parameter of [0,1], and each end
   of the range is the ordinate of a control point (nothing larger than the control box is reported). *)
Theorem C11_src_cubic_fast_box_is_model : forall c,
  src_cubic_fast_bounding_range_x c = c_fast_bounding_range (px (c_from c)) (px (c_ctrl1 c)) (px (c_ctrl2 c)) (px (c_to c)) /\
  src_cubic_fast_bounding_range_y c = c_fast_bounding_range (py (c_from c)) (py (c_ctrl1 c)) (py (c_ctrl2 c)) (py (c_to c)).
Proof. intro c. split; [exact (src_cubic_fast_bounding_range_x_is_model c)|exact (src_cubic_fast_bounding_range_y_is_model c)]. Qed.

Theorem C11_src_cubic_fast_box_contains_curve : forall c t, 0 <= t -> t <= 1 ->
  fst (src_cubic_fast_bounding_range_x c) <= src_cubic_x c t /\ src_cubic_x c t <= snd (src_cubic_fast_bounding_range_x c) /\
  fst (src_cubic_fast_bounding_range_y c) <= src_cubic_y c t /\ src_cubic_y c t <= snd (src_cubic_fast_bounding_range_y c).
Proof. exact src_cubic_fast_box_contains_curve. Qed.

Theorem C11_src_cubic_fast_box_ends_are_controls : forall c,
  let r := src_cubic_fast_bounding_range_x c in
  (fst r == px (c_from c) \/ fst r == px (c_ctrl1 c) \/ fst r == px (c_ctrl2 c) \/ fst r == px (c_to c)) /\
  (snd r == px (c_from c) \/ snd r == px (c_ctrl1 c) \/ snd r == px (c_ctrl2 c) \/ snd r == px (c_to c)).
Proof. exact src_cubic_fast_box_ends_are_controls. Qed.

Print Assumptions C11_quad_extremum_sound.
Print Assumptions C11_quad_extremum_complete.
Print Assumptions C11_quad_dcoord_is_derivative.
Print Assumptions C11_quad_none_monotone.
Print Assumptions C11_quad_range_contains.
Print Assumptions C11_quad_range_tight.
Print Assumptions C11_quad_fast_contains_exact.
Print Assumptions C11_quad_monotonic_ranges_chain.
Print Assumptions C11_quad_pieces_monotone.
Print Assumptions C11_quad_pieces_retrace.
Print Assumptions C11_cubic_dpoly_is_derivative.
Print Assumptions C11_cubic_extrema_sound.
Print Assumptions C11_cubic_extrema_complete.
Print Assumptions C11_cubic_range_tight.
Print Assumptions C11_cubic_range_contains.
Print Assumptions C11_cubic_fast_contains.
Print Assumptions C11_quad_local_extremum_is_source.
Print Assumptions C11_quad_extrema_are_source.
Print Assumptions C11_src_quad_box_contains_curve.
Print Assumptions C11_src_quad_fast_box_contains_exact.
Print Assumptions C11_src_cubic_fast_box_is_model.
Print Assumptions C11_src_cubic_fast_box_contains_curve.
Print Assumptions C11_src_cubic_fast_box_ends_are_controls.
