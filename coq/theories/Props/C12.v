(* C12 - intersection queries are exact for segments. *)
From Coq Require Import QArith Qabs.
From Coq Require Import List Sorted.
From LV Require Import Base.Prelude Model.Bezier Model.LineInter Model.QuadLine Model.Triangle Proofs.C12_LineInter Proofs.C12_QuadLine
  Proofs.C12_Triangle Gen.Functions Proofs.Gen_Geom Proofs.Gen_GeomProps.
Open Scope Q_scope.

(* the returned parameters locate a common point on both segments, which are then
   neither parallel nor sharing an endpoint *)
Theorem C12_inter_sound : forall s o t u, seg_intersection_t s o = Some (t, u) ->
  meet_at s o t u /\ ~ parallel s o /\ ~ shares_endpoint s o.
Proof. exact inter_sound. Qed.

(* exactly when: non-parallel segments without a shared endpoint that meet are reported,
   with the parameters of the meeting point *)
Theorem C12_inter_complete : forall s o t u,
  ~ shares_endpoint s o -> ~ parallel s o -> meet_at s o t u ->
  exists t' u', seg_intersection_t s o = Some (t', u') /\ t' == t /\ u' == u.
Proof. exact inter_complete. Qed.

(* the meeting point of non-parallel segments is unique *)
Theorem C12_inter_unique : forall s o t u t' u',
  ~ parallel s o -> meet_at s o t u -> meet_at s o t' u' -> t == t' /\ u == u'.
Proof. exact inter_unique. Qed.

(* parallel (including overlapping / collinear) segments report none *)
Theorem C12_inter_parallel_none : forall s o, parallel s o -> seg_intersection_t s o = None.
Proof. exact inter_parallel_none. Qed.

Theorem C12_inter_shared_endpoint_none : forall s o, shares_endpoint s o -> seg_intersection_t s o = None.
Proof. exact inter_shared_endpoint_none. Qed.

(* symmetric roles: swapping the segments swaps the parameters *)
Theorem C12_inter_sym : forall s o t u, seg_intersection_t s o = Some (t, u) ->
  exists t' u', seg_intersection_t o s = Some (u', t') /\ t' == t /\ u' == u.
Proof. exact inter_sym. Qed.

(* segment against an infinite line *)
Theorem C12_seg_line_sound : forall s lp lv t, seg_line_intersection_t s lp lv = Some t ->
  0 <= t /\ t <= 1 /\ cross (psub (l_sample s t) lp) lv == 0.
Proof. exact seg_line_sound. Qed.

Theorem C12_seg_line_complete : forall s lp lv t,
  ~ cross (psub (l_to s) (l_from s)) lv == 0 ->
  0 <= t -> t <= 1 -> cross (psub (l_sample s t) lp) lv == 0 ->
  exists t', seg_line_intersection_t s lp lv = Some t' /\ t' == t.
Proof. exact seg_line_complete. Qed.

(* non-vacuity: a concrete crossing is reported, with hypotheses of the theorems met *)
Example C12_example :
  seg_intersects (mkLine (0,0) (2,2)) (mkLine (0,2) (2,0)) = true /\
  meet_at (mkLine (0,0) (2,2)) (mkLine (0,2) (2,0)) (1#2) (1#2).
Proof. split; [vm_compute; reflexivity | unfold meet_at, peq; vm_compute; intuition discriminate]. Qed.


(* ---- on the functions regenerated from /repo/crates/geom/src/line.rs on every run (tools/rs2coq.py) *)
Theorem C12_intersections_are_source : forall s o lp lv,
  src_line_intersection_t s o = seg_intersection_t s o /\
  src_line_line_intersection_t s lp lv = seg_line_intersection_t s lp lv.
Proof. intros s o lp lv. split; [exact (src_line_intersection_t_is_model s o)|exact (src_line_line_intersection_t_is_model s lp lv)]. Qed.

Theorem C12_src_line_intersection_sound : forall s o t u, src_line_intersection_t s o = Some (t, u) ->
  meet_at s o t u /\ ~ parallel s o /\ ~ shares_endpoint s o.
Proof. exact src_line_intersection_sound. Qed.

Theorem C12_src_line_intersection_complete : forall s o t u,
  ~ shares_endpoint s o -> ~ parallel s o -> meet_at s o t u ->
  exists t' u', src_line_intersection_t s o = Some (t', u') /\ t' == t /\ u' == u.
Proof. exact src_line_intersection_complete. Qed.

(* ---- line x quadratic: QuadraticBezierSegment::line_intersections_t (Model/QuadLine.v, statement by statement, float
   special cases written out; the square root is an oracle assumed correct only at the discriminant the code passes it).
   Sound: every reported parameter is in [0,1] and its point is ON the line.  Complete: every parameter in [0,1] whose
   point is on the line is reported, unless the curve's projection across the line is constant.  Increasing, hence
   without duplicates.  The pinned code's linear branch (c / b for - c / b) is refuted by a witness - the defect
   repaired in /repo (known_findings.txt, fixed: 3905ccba). *)
Theorem C12_quad_line_sound : forall sq c ea eb ec t,
  sqrt_ok_at sq (q_line_delta c ea eb ec) ->
  In t (q_line_intersections_t sq c ea eb ec) ->
  0 <= t /\ t <= 1 /\ on_line ea eb ec (q_sample c t).
Proof. exact q_line_sound. Qed.

Theorem C12_quad_line_complete : forall sq c ea eb ec t,
  sqrt_ok_at sq (q_line_delta c ea eb ec) ->
  (let '(a, b, _) := q_line_poly c ea eb ec in ~ (a == 0 /\ b == 0)) ->
  0 <= t -> t <= 1 -> on_line ea eb ec (q_sample c t) ->
  exists t', In t' (q_line_intersections_t sq c ea eb ec) /\ t' == t.
Proof. exact q_line_complete. Qed.

Theorem C12_quad_line_sorted : forall sq c ea eb ec,
  StronglySorted Qlt (q_line_intersections_t sq c ea eb ec).
Proof. exact q_line_sorted. Qed.

Theorem C12_quad_line_pinned_refuted : exists sq c ea eb ec t,
  sqrt_ok_at sq (q_line_delta c ea eb ec)
  /\ In t (q_line_intersections_t_pinned sq c ea eb ec)
  /\ ~ on_line ea eb ec (q_sample c t).
Proof. exact q_line_pinned_refuted. Qed.

Example C12_quad_line_example :
  map Qred (q_line_intersections_t (fun _ => 1) (mkQuad (0,0) (1#2,1) (1,0)) 1 0 (-(1#2))) = [1#2]
  /\ q_line_intersections_t_pinned (fun _ => 1) (mkQuad (0,0) (1#2,1) (1,0)) 1 0 (-(1#2)) = [].
Proof. exact q_line_fixed_example. Qed.

(* ---- Triangle::contains_point (Model/Triangle.v; the functions of triangle.rs are also regenerated from the source and
   proved equal to the model): strict interiority for every non-degenerate triangle of either orientation, nothing for a
   degenerate one (where the code divides by zero), vertices and edge lines excluded, independent of the vertex order *)
Theorem C12_triangle_is_source : forall t p s,
  src_tri_get_barycentric_coords_for_point t p = tri_bary t p /\ src_tri_contains_point t p = tri_contains_point t p /\
  src_tri_intersects_line_segment t s = tri_intersects_line_segment t s /\ src_line_intersects (tri_ab t) s = seg_intersects (tri_ab t) s.
Proof. intros t p s. repeat split; reflexivity. Qed.

Theorem C12_triangle_contains_spec : forall t p, ~ tri_det t == 0 ->
  (tri_contains_point t p = true <-> strictly_inside t p).
Proof. exact tri_contains_spec. Qed.

Theorem C12_triangle_degenerate_contains_nothing : forall t p, tri_det t == 0 -> tri_contains_point t p = false.
Proof. exact tri_degenerate_contains_nothing. Qed.

Theorem C12_triangle_boundary_not_contained : forall t s, 0 <= s -> s <= 1 ->
  tri_contains_point t (tri_point t s 0) = false /\ tri_contains_point t (tri_point t 0 s) = false
  /\ tri_contains_point t (tri_point t s (1 - s)) = false.
Proof. exact tri_edge_points_not_contained. Qed.

Theorem C12_triangle_vertex_order : forall a b c p,
  tri_contains_point (mkTri a c b) p = tri_contains_point (mkTri a b c) p /\
  tri_contains_point (mkTri b c a) p = tri_contains_point (mkTri a b c) p.
Proof. intros a b c p. split; [exact (tri_contains_swap a b c p)|exact (tri_contains_rotate a b c p)]. Qed.

Print Assumptions C12_inter_sound.
Print Assumptions C12_inter_complete.
Print Assumptions C12_inter_unique.
Print Assumptions C12_inter_parallel_none.
Print Assumptions C12_inter_shared_endpoint_none.
Print Assumptions C12_inter_sym.
Print Assumptions C12_seg_line_sound.
Print Assumptions C12_seg_line_complete.
Print Assumptions C12_intersections_are_source.
Print Assumptions C12_src_line_intersection_sound.
Print Assumptions C12_src_line_intersection_complete.
Print Assumptions C12_quad_line_sound.
Print Assumptions C12_quad_line_complete.
Print Assumptions C12_quad_line_sorted.
Print Assumptions C12_quad_line_pinned_refuted.
Print Assumptions C12_triangle_is_source.
Print Assumptions C12_triangle_contains_spec.
Print Assumptions C12_triangle_degenerate_contains_nothing.
Print Assumptions C12_triangle_boundary_not_contained.
Print Assumptions C12_triangle_vertex_order.
