(* C15 - SVG-style builder: any command sequence gives a well-formed path with SVG semantics.
   Quantified over ALL finite command sequences, ALL operands, ALL arc-oracle values and ANY
   coordinate arithmetic (the coordinate type and its add/sub are parameters). *)
From LV Require Import Base.Prelude Model.SvgBuilder Proofs.C15_Svg.

(* whatever sequence of SVG commands is issued, followed by build, the wrapped builder only
   sees properly nested begin / edge* / end calls *)
Theorem C15_svg_protocol : forall (C : Type) (zero : C) (add1 sub1 : C -> C -> C) (cmds : list (svg_cmd C)),
  well_nested C false (svg_run C zero add1 sub1 cmds) = true.
Proof. exact svg_protocol. Qed.

(* ... at every prefix too (build may come at any point) *)
Theorem C15_svg_protocol_prefix : forall (C : Type) (zero : C) (add1 sub1 : C -> C -> C) (cmds more : list (svg_cmd C)),
  well_nested C false (svg_run C zero add1 sub1 cmds) = true /\
  well_nested C false (svg_run C zero add1 sub1 (cmds ++ more)) = true.
Proof. exact svg_protocol_prefix. Qed.

(* and the calls are exactly those prescribed by the SVG path rules (SvgSem): relative coordinates
   resolved against the current point, implicit move-to at the right place, close returns to the
   sub-path start, smooth commands reflect the previous control point only after a curve of the
   same kind.  The only fact about arithmetic that is needed: reflecting a point about itself gives
   that point (x + (x - x) = x; true of IEEE floats for finite x, of integers, ...). *)
Theorem C15_svg_refines_sem : forall (C : Type) (zero : C) (add1 sub1 : C -> C -> C),
  (forall x, add1 x (sub1 x x) = x) ->
  forall cmds : list (svg_cmd C), svg_run C zero add1 sub1 cmds = sem_run C zero add1 sub1 cmds.
Proof. exact svg_refines_sem. Qed.

(* the SVG semantics itself only produces well-nested calls *)
Theorem C15_sem_protocol : forall (C : Type) (zero : C) (add1 sub1 : C -> C -> C) (cmds : list (svg_cmd C)),
  well_nested C false (sem_run C zero add1 sub1 cmds) = true.
Proof. exact sem_protocol. Qed.

(* non-vacuity: integer arithmetic meets the hypothesis of C15_svg_refines_sem *)
Example C15_hyp_satisfiable : forall x : Z, (x + (x - x) = x)%Z.
Proof. intros; lia. Qed.

Print Assumptions C15_svg_protocol.
Print Assumptions C15_svg_protocol_prefix.
Print Assumptions C15_svg_refines_sem.
Print Assumptions C15_sem_protocol.
