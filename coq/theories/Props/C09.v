(* C09 - flattening yields a connected polyline from start to end with contiguous parameter
   ranges ending at exactly 1: the control structure of every flattening interface, for ANY
   numeric oracle (step count, parameter function, number of sub-quadratics) and any arithmetic.
   (The distance bound "within the tolerance" is validated per run, see DESIGN.md.) *)
From LV Require Import Base.Prelude Model.Flatten Proofs.C09_Flatten.

(* a chain of pieces from [a] (parameter [ta]) to [b] (parameter [tb]) *)
Fixpoint chain {P T} (a : P) (ta : T) (l : list (piece P T)) (b : P) (tb : T) : Prop :=
  match l with
  | [] => False
  | [p] => pc_from P T p = a /\ pc_t0 P T p = ta /\ pc_to P T p = b /\ pc_t1 P T p = tb
  | p :: r => pc_from P T p = a /\ pc_t0 P T p = ta /\ chain (pc_to P T p) (pc_t1 P T p) r b tb
  end.

(* quadratic callback: starts exactly at [from] with parameter 0, every piece starts where the
   previous one ended, ends exactly at [to] with parameter exactly 1; max(count,1) pieces *)
Theorem C09_quad_chain : forall (P T : Type) (t0 t1 : T) (from to : P) (sample : T -> P) count t_at,
  chain from t0 (quad_callback P T t0 t1 from to sample count t_at) to t1 /\
  length (quad_callback P T t0 t1 from to sample count t_at) = Nat.max count 1.
Proof. exact quad_chain. Qed.

(* every inner piece ends at the curve sampled at the end of its parameter range *)
Theorem C09_quad_inner_points : forall (P T : Type) (t0 t1 : T) (from to : P) (sample : T -> P) count t_at p,
  In p (removelast (quad_callback P T t0 t1 from to sample count t_at)) ->
  pc_to P T p = sample (pc_t1 P T p).
Proof. exact quad_inner_points. Qed.

(* the point iterator and the parameter iterator yield exactly the callback's end points /
   end parameters *)
Theorem C09_quad_iterators : forall (P T : Type) (t0 t1 : T) (from to : P) (sample : T -> P) count t_at,
  quad_points P T to sample count t_at
    = map (pc_to P T) (quad_callback P T t0 t1 from to sample count t_at) /\
  quad_ts T t1 count t_at
    = map (pc_t1 P T) (quad_callback P T t0 t1 from to sample count t_at).
Proof. exact quad_iterators. Qed.

(* cubic callback: the pieces of consecutive sub-quadratics form one chain in parameter space from
   0 to exactly 1, provided consecutive sub-quadratics share their end point (they are
   split_range(t_j..t_j+1).to_quadratic() of one cubic) and 1 is recognised as 1 *)
Theorem C09_cubic_chain : forall (P T : Type) (t0 t1 : T) nq q_from q_to q_sample q_count q_t_at remap is_one
                                 (cfrom cto : P),
  (0 < nq)%nat -> is_one t1 = true ->
  q_from 0%nat = cfrom -> q_to (nq - 1)%nat = cto ->
  (forall j, (S j < nq)%nat -> q_to j = q_from (S j)) ->
  chain cfrom t0 (cubic_callback P T t0 t1 nq q_from q_to q_sample q_count q_t_at remap is_one) cto t1.
Proof. exact cubic_chain. Qed.

(* cubic point iterator: ends exactly at the curve's end point *)
Theorem C09_cubic_iter_end : forall (P T : Type) (t1 : T) (cto : P) csample nq q_count q_t_at is_one iter_map,
  (0 < nq)%nat -> is_one t1 = true ->
  last (cubic_iter_points P T t1 cto csample nq q_count q_t_at is_one iter_map) cto = cto /\
  cubic_iter_points P T t1 cto csample nq q_count q_t_at is_one iter_map <> [].
Proof. exact cubic_iter_end. Qed.

Example C09_example :
  map (fun p => (pc_t0 nat nat p, pc_t1 nat nat p))
      (quad_callback nat nat 0 100 0 100 (fun t => t) 4 (fun i => 25 * i)) = [(0, 25); (25, 50); (50, 75); (75, 100)].
Proof. reflexivity. Qed.

Print Assumptions C09_quad_chain.
Print Assumptions C09_quad_inner_points.
Print Assumptions C09_quad_iterators.
Print Assumptions C09_cubic_chain.
Print Assumptions C09_cubic_iter_end.
