(* C09 - flattening yields a connected polyline from start to end with contiguous parameter
   ranges ending at exactly 1: the control structure of every flattening interface, for ANY
   numeric oracle (step count, parameter function, number of sub-quadratics) and any arithmetic.
   The distance bound "within the tolerance" is decided per run by the verified curve-deviation
   checker (Checker/CurveDev.v): the soundness theorems below say that an empty report decides
   ALL points of the curve, and that a reported witness is a genuine violation. *)
From Coq Require Import QArith.
From LV Require Import Base.Prelude Model.Flatten Model.Bezier Checker.Region Checker.CurveDev
                       Proofs.C09_Flatten Proofs.C09_CurveDev.
Close Scope Q_scope.

(* a chain of pieces from [a] (parameter [ta]) to [b] (parameter [tb]) *)
Fixpoint chain {P T} (a : P) (ta : T) (l : list (piece P T)) (b : P) (tb : T) : Prop :=
  match l with
  | [] => False
  | [p] => pc_from P T p = a /\ pc_t0 P T p = ta /\ pc_to P T p = b /\ pc_t1 P T p = tb
  | p :: r => pc_from P T p = a /\ pc_t0 P T p = ta /\ chain (pc_to P T p) (pc_t1 P T p) r b tb
  end.

(* quadratic callback: starts exactly at [from] with parameter 0, every piece starts where the
   previous one ended, ends exactly at [to] with parameter exactly 1; max(count,1) pieces *)
Theorem C09_quad_chain : forall (P T : Type) (t0 t1 : T) (from to : P) (sample : T -> P) count t_at,
  chain from t0 (quad_callback P T t0 t1 from to sample count t_at) to t1 /\
  length (quad_callback P T t0 t1 from to sample count t_at) = Nat.max count 1.
Proof. exact quad_chain. Qed.

(* every inner piece ends at the curve sampled at the end of its parameter range *)
Theorem C09_quad_inner_points : forall (P T : Type) (t0 t1 : T) (from to : P) (sample : T -> P) count t_at p,
  In p (removelast (quad_callback P T t0 t1 from to sample count t_at)) ->
  pc_to P T p = sample (pc_t1 P T p).
Proof. exact quad_inner_points. Qed.

(* the point iterator and the parameter iterator yield exactly the callback's end points /
   end parameters *)
Theorem C09_quad_iterators : forall (P T : Type) (t0 t1 : T) (from to : P) (sample : T -> P) count t_at,
  quad_points P T to sample count t_at
    = map (pc_to P T) (quad_callback P T t0 t1 from to sample count t_at) /\
  quad_ts T t1 count t_at
    = map (pc_t1 P T) (quad_callback P T t0 t1 from to sample count t_at).
Proof. exact quad_iterators. Qed.

(* cubic callback: the pieces of consecutive sub-quadratics form one chain in parameter space from
   0 to exactly 1, provided consecutive sub-quadratics share their end point (they are
   split_range(t_j..t_j+1).to_quadratic() of one cubic) and 1 is recognised as 1 *)
Theorem C09_cubic_chain : forall (P T : Type) (t0 t1 : T) nq q_from q_to q_sample q_count q_t_at remap is_one
                                 (cfrom cto : P),
  (0 < nq)%nat -> is_one t1 = true ->
  q_from 0%nat = cfrom -> q_to (nq - 1)%nat = cto ->
  (forall j, (S j < nq)%nat -> q_to j = q_from (S j)) ->
  chain cfrom t0 (cubic_callback P T t0 t1 nq q_from q_to q_sample q_count q_t_at remap is_one) cto t1.
Proof. exact cubic_chain. Qed.

(* cubic point iterator: ends exactly at the curve's end point *)
Theorem C09_cubic_iter_end : forall (P T : Type) (t1 : T) (cto : P) csample nq q_count q_t_at is_one iter_map,
  (0 < nq)%nat -> is_one t1 = true ->
  last (cubic_iter_points P T t1 cto csample nq q_count q_t_at is_one iter_map) cto = cto /\
  cubic_iter_points P T t1 cto csample nq q_count q_t_at is_one iter_map <> [].
Proof. exact cubic_iter_end. Qed.

(* ---------------------------------------------------------------- the distance bound
   [near_poly tol2 segs p]: some segment of the polyline is within the tolerance of p (squared
   distances, exact rationals).  An empty report of the checker on a flattening (parameters [ts]
   ending with 1, vertices [pts]) decides EVERY point of the curve, t ranging over all rationals of
   [0, 1] - not a sample. *)
Theorem C09_quad_deviation_sound : forall fuel tol2 c ts pts,
  quad_flat_check fuel tol2 c ts pts = Some [] ->
  forall t, (0 <= t)%Q -> (t <= 1)%Q -> near_poly tol2 (segs_of pts) (q_sample c t).
Proof. exact quad_flat_sound. Qed.

Theorem C09_cubic_deviation_sound : forall fuel tol2 c ts pts,
  cubic_flat_check fuel tol2 c ts pts = Some [] ->
  forall t, (0 <= t)%Q -> (t <= 1)%Q -> near_poly tol2 (segs_of pts) (c_sample c t).
Proof. exact cubic_flat_sound. Qed.

(* a reported witness is a point of the curve farther than the tolerance from every segment *)
Theorem C09_quad_deviation_witness : forall fuel tol2 c ts pts l i t,
  quad_flat_check fuel tol2 c ts pts = Some l -> In (i, VFar t) l ->
  (0 <= t)%Q /\ (t <= 1)%Q /\ far tol2 (segs_of pts) (q_sample c t).
Proof. exact quad_flat_witness. Qed.

Theorem C09_cubic_deviation_witness : forall fuel tol2 c ts pts l i t,
  cubic_flat_check fuel tol2 c ts pts = Some l -> In (i, VFar t) l ->
  (0 <= t)%Q /\ (t <= 1)%Q /\ far tol2 (segs_of pts) (c_sample c t).
Proof. exact cubic_flat_witness. Qed.

(* the range checks themselves, for any sub-range of any curve *)
Theorem C09_qcheck_ok : forall fuel tol2 c t0 t1 segs, (t0 <= t1)%Q ->
  qcheck fuel tol2 c t0 t1 segs = VOk ->
  forall t, (t0 <= t)%Q -> (t <= t1)%Q -> near_poly tol2 segs (q_sample c t).
Proof. exact qcheck_ok. Qed.

Theorem C09_ccheck_ok : forall fuel tol2 c t0 t1 segs, (t0 <= t1)%Q ->
  ccheck fuel tol2 c t0 t1 segs = VOk ->
  forall t, (t0 <= t)%Q -> (t <= t1)%Q -> near_poly tol2 segs (c_sample c t).
Proof. exact ccheck_ok. Qed.

(* every vertex is within the tolerance of the curve point of its own parameter *)
Theorem C09_quad_vertices_sound : forall tol2 c ts pts i0,
  quad_vertices_far tol2 c ts pts i0 = [] ->
  forall k t p, nth_error ts k = Some t -> nth_error pts k = Some p ->
  (norm2 (psub p (q_sample c t)) <= tol2)%Q.
Proof. exact quad_vertices_sound. Qed.

Theorem C09_cubic_vertices_sound : forall tol2 c ts pts i0,
  cubic_vertices_far tol2 c ts pts i0 = [] ->
  forall k t p, nth_error ts k = Some t -> nth_error pts k = Some p ->
  (norm2 (psub p (c_sample c t)) <= tol2)%Q.
Proof. exact cubic_vertices_sound. Qed.

(* non-vacuity: the parabola (0,0) (1,2) (2,0) flattened at t = 1/2; its largest deviation from the
   two chords is sqrt(1/32): accepted at exactly that tolerance, refuted (with the witnesses
   t = 1/4 and t = 3/4) just below it *)
Example C09_example_deviation :
  let c := mkQuad (0, 0)%Q (1, 2)%Q (2, 0)%Q in
  let ts := [1 # 2; 1]%Q in
  let pts := [(0, 0); (1, 1); (2, 0)]%Q in
  quad_flat_check 20 (1 # 32)%Q c ts pts = Some [] /\
  quad_flat_check 20 (3 # 100)%Q c ts pts = Some [(0%Z, VFar (1 # 4)%Q); (1%Z, VFar (3 # 4)%Q)].
Proof. vm_compute. split; reflexivity. Qed.

Example C09_example :
  map (fun p => (pc_t0 nat nat p, pc_t1 nat nat p))
      (quad_callback nat nat 0 100 0 100 (fun t => t) 4 (fun i => 25 * i)) = [(0, 25); (25, 50); (50, 75); (75, 100)].
Proof. reflexivity. Qed.

Print Assumptions C09_quad_chain.
Print Assumptions C09_quad_inner_points.
Print Assumptions C09_quad_iterators.
Print Assumptions C09_cubic_chain.
Print Assumptions C09_cubic_iter_end.
Print Assumptions C09_quad_deviation_sound.
Print Assumptions C09_cubic_deviation_sound.
Print Assumptions C09_quad_deviation_witness.
Print Assumptions C09_cubic_deviation_witness.
Print Assumptions C09_qcheck_ok.
Print Assumptions C09_ccheck_ok.
Print Assumptions C09_quad_vertices_sound.
Print Assumptions C09_cubic_vertices_sound.
