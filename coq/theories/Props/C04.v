(* C04 - geometry-builder protocol, index validity and all-or-nothing output on error. *)
From Coq Require Import String.
From LV Require Import Base.Prelude Model.GeomBuilder Proofs.C04_GeomBuilder Gen.Skeletons.
Open Scope Z_scope.

(* For ANY prior buffer contents, vertex offset and index type: a call whose trace is
   begin . (vertex | triangle)* . abort leaves the caller's buffers exactly as they were. *)
Theorem C04_abort_restores : forall (V : Type) vs is off max modulus (body : list (gcall V)),
  Forall (is_body_call V) body ->
  let b := fst (bb_run V (bb_new V vs is off max modulus) (GBegin V :: body ++ [GAbort V])) in
  bb_vertices V b = vs /\ bb_indices V b = is.
Proof. exact abort_restores. Qed.

(* The decidable protocol checker applied to recorded traces is sound: every trace it accepts for
   a failed call restores the buffers, every trace it accepts for a successful call keeps the old
   contents as a prefix, and accepted triangles only use ids returned since begin. *)
Theorem C04_checked_failure_restores : forall (V : Type) vs is off max modulus (t : list (gcall V)),
  trace_ok V false t = true ->
  let b := fst (bb_run V (bb_new V vs is off max modulus) t) in
  bb_vertices V b = vs /\ bb_indices V b = is.
Proof. exact checked_failure_restores. Qed.

Theorem C04_checked_success_frame : forall (V : Type) vs is off max modulus (t : list (gcall V)),
  trace_ok V true t = true ->
  let b := fst (bb_run V (bb_new V vs is off max modulus) t) in
  firstn (length vs) (bb_vertices V b) = vs /\ firstn (length is) (bb_indices V b) = is.
Proof. exact checked_success_frame. Qed.

Theorem C04_checked_tris_known : forall (V : Type) (t : list (gcall V)) known failed res,
  body_ok V known failed t = Some res -> tris_known V known t.
Proof. exact checked_tris_known. Qed.

(* an accepted vertex gets the id of its own, new, slot and that id is below the index type's MAX;
   the index written for it therefore does not wrap *)
Theorem C04_add_vertex_id : forall (V : Type) (b : bb V) v b' id, bb_add_vertex V b v = (b', Some id) ->
  id = Z.of_nat (length (bb_vertices V b)) /\ id < bb_max V b /\
  nth_error (bb_vertices V b') (Z.to_nat id) = Some v.
Proof. exact add_vertex_id. Qed.

Theorem C04_no_index_wrap : forall (V : Type) (b : bb V) id,
  0 <= id -> 0 <= bb_vertex_offset V b -> id + bb_vertex_offset V b < bb_modulus V b ->
  bb_modulus V b <= 4294967296 ->
  to_index V b id = id + bb_vertex_offset V b.
Proof. exact no_index_wrap. Qed.

(* ---- generated obligation: the control skeleton of every function of the tessellation crate
   that opens / closes a geometry (regenerated from the Rust source on every run) ---- *)
Definition skeleton_safe (all : list skeleton) (s : skeleton) : bool :=
  if Nat.ltb 0 (sk_begin s) then
    if Nat.ltb 0 (sk_end s) then
      (* opens and closes: no `?` may leave between begin and end, every `return Err` has an abort *)
      Nat.eqb (sk_tries_between s) 0 && Nat.leb (sk_err_returns s) (sk_abort s)
    else
      (* opens only (a builder object): a function of the same file must end it, with an abort path *)
      existsb (fun t => String.eqb (sk_file t) (sk_file s) && Nat.ltb 0 (sk_end t) && Nat.ltb 0 (sk_abort t)
                        && Nat.eqb (sk_begin t) 0) all
  else Nat.leb (sk_err_returns s) (sk_abort s).

Theorem C04_skeletons_safe : forallb (skeleton_safe all_skeletons) all_skeletons = true.
Proof. vm_compute. reflexivity. Qed.

Example C04_trace_example :
  trace_ok Z false [GBegin Z; GVertex Z 0 (Some 4); GVertex Z 0 None; GAbort Z] = true /\
  trace_ok Z true [GBegin Z; GVertex Z 0 (Some 0); GVertex Z 0 (Some 1); GVertex Z 0 (Some 2); GTri Z 0 1 2; GEnd Z] = true /\
  trace_ok Z false [GBegin Z; GVertex Z 0 (Some 4); GVertex Z 0 None] = false.
Proof. vm_compute. repeat split. Qed.

Print Assumptions C04_abort_restores.
Print Assumptions C04_checked_failure_restores.
Print Assumptions C04_checked_success_frame.
Print Assumptions C04_checked_tris_known.
Print Assumptions C04_add_vertex_id.
Print Assumptions C04_no_index_wrap.
Print Assumptions C04_skeletons_safe.
