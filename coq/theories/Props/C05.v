(* C05 - stroke output is a well-formed mesh with self-consistent per-vertex data.
   The oracle that decides every recorded stroke (Checker/StrokeSpec.v, run by Run/C05.v) means what it
   says; the pure decision logic of stroke.rs that guards against degenerate triangles and bounds the
   reach of joins and caps is proved for ALL ids / fold flags / normals / limits.
   That the tessellator produces meshes the oracle accepts for every input is validated per run
   (harness c05), not proved.  Statements only; proofs in Proofs/C05_Stroke.v. *)
From Coq Require Import QArith.
From LV Require Import Base.Prelude Base.F32 Model.Bezier Gen.Constants Checker.Region Checker.StrokeSpec
  Proofs.C01_Dist Proofs.C05_Stroke Gen.Functions Proofs.Gen_Functions.
Open Scope Q_scope.

(* --- the oracle --- *)
Theorem C05_mesh_ok_sound : forall segs allowed2 vs ts,
  mesh_ok segs allowed2 vs ts = true ->
  (forall v, In v vs ->
     position_f32 v =p= sv_pos v /\
     exists s, In s segs /\ seg_dist2 (sv_pos v) s <= allowed2) /\
  (forall t, In t ts ->
     tri_distinct t /\
     let '(a, b, c) := t in
     (0 <= a < Z.of_nat (length vs))%Z /\ (0 <= b < Z.of_nat (length vs))%Z /\ (0 <= c < Z.of_nat (length vs))%Z).
Proof. exact mesh_ok_sound. Qed.

(* "within allowed of the path": some point of some segment of the path is that close *)
Theorem C05_within_reach_meaning : forall segs allowed2 v,
  vertex_ok segs allowed2 v = true ->
  exists s t, In s segs /\ 0 <= t /\ t <= 1 /\
    norm2 (psub (sv_pos v) (seg_point (fst s) (snd s) t)) <= allowed2.
Proof. exact within_reach_meaning. Qed.

(* --- add_edge_triangles: the issue_894 guards are sufficient, for ALL ids and fold flags --- *)
Theorem C05_edge_triangles_distinct : forall p0 p1 t, In t (add_edge_triangles p0 p1) -> tri_distinct t.
Proof. exact edge_triangles_distinct. Qed.
Theorem C05_edge_triangles_at_most_two : forall p0 p1, (length (add_edge_triangles p0 p1) <= 2)%nat.
Proof. exact edge_triangles_at_most_two. Qed.
(* they only use the side vertices of the two endpoints *)
Theorem C05_edge_triangles_ids : forall p0 p1 a b c, In (a, b, c) (add_edge_triangles p0 p1) ->
  let ids := [pos_prev p0; pos_next p0; neg_prev p0; neg_next p0; pos_prev p1; pos_next p1; neg_prev p1; neg_next p1] in
  In a ids /\ In b ids /\ In c ids.
Proof. exact edge_triangles_ids. Qed.

(* --- miter limit: generated obligation + meaning --- *)
(* the factor read from stroke.rs on this run is 1: the limit is |normal| <= miter_limit (SVG: miter length /
   line width), not the 4 (= |normal| <= 2 miter_limit) of the code before the fix *)
Theorem C05_miter_limit_factor_is_one : miter_limit_factor == 1.
Proof. exact miter_limit_factor_is_one. Qed.
Theorem C05_miter_limit_meaning : forall normal ml,
  miter_limit_is_exceeded normal ml = false <-> sdot normal normal <= ml * ml.
Proof. exact miter_limit_meaning. Qed.

(* --- reach geometry: a stroke vertex is the intersection of two lines tangent to the disc of radius h --- *)
(* squared distance of the corner from the centre: 2 h^2 / (1 + n1.n2) *)
Theorem C05_tangent_corner : forall n1 n2 h x,
  tangent_corner n1 n2 h x -> ~ sdot n1 n2 * sdot n1 n2 == 1 ->
  sdot x x * (1 + sdot n1 n2) == 2 * h * h.
Proof. exact tangent_corner_distance. Qed.
(* square cap corner / inner corner of a right-angle turn: sqrt 2 half-widths *)
Theorem C05_right_angle_corner : forall n1 n2 h x,
  tangent_corner n1 n2 h x -> sdot n1 n2 == 0 -> sdot x x == 2 * h * h.
Proof. exact right_angle_corner. Qed.
(* a miter tip that passes the limit test is within miter_limit half-widths *)
Theorem C05_miter_tip_within_limit : forall x h ml, 0 < h ->
  miter_limit_is_exceeded (px x / h, py x / h) ml = false -> sdot x x <= ml * ml * (h * h).
Proof. exact miter_tip_within_limit. Qed.
(* miter-clip: with c, s the cosine and sine of the angle between the join axis and a side normal, the join is
   clipped when ml c < 1; the clipped corner is at lateral offset h (1 - ml c) / s from the axis, at most h:
   the corner is within sqrt(ml^2 + 1) half-widths *)
Theorem C05_clip_corner_reach : forall c s ml,
  0 < s -> 0 < c -> c * c + s * s == 1 -> 1 <= ml -> ml * c < 1 ->
  (1 - ml * c) * (1 - ml * c) <= s * s.
Proof. exact clip_corner_reach. Qed.

(* non-vacuity *)
(* the corners of a clipped miter lie on the sides between the side point n0 = (a, b) and the miter tip T = (p, q):
   a point i = (x, y) of the side line {v : v.n0 = n0.n0} that is cut off by a clip line not beyond the tip
   (i.T <= T.T) and not before the side point (n0.T <= i.T, true whenever the miter limit is at least 1) is never
   farther from the join than the tip, provided the join is not straight (T is not n0).  This is the bound the
   repaired get_clip_intersections enforces when rounding makes the intersection meaningless. *)
Theorem C05_clip_corner_within_tip : forall a b p q x y : Q,
  0 < a * a + b * b ->
  p * a + q * b == a * a + b * b ->
  x * a + y * b == a * a + b * b ->
  ~ (a * q - b * p == 0) ->
  x * p + y * q <= p * p + q * q ->
  a * p + b * q <= x * p + y * q ->
  x * x + y * y <= p * p + q * q.
Proof. exact clip_corner_within_tip. Qed.

Example C05_tangent_corner_example :
  tangent_corner (3#5, 4#5) (4#5, 3#5) 1 (5#7, 5#7) /\ ~ sdot (3#5, 4#5) (4#5, 3#5) * sdot (3#5, 4#5) (4#5, 3#5) == 1.
Proof. exact tangent_corner_example. Qed.
Example C05_mesh_ok_example :
  mesh_ok [((0, 0), (4, 0))] (1#2)
    [mkSV (0, 1#2) (0, 0) (0, 1) 1; mkSV (0, -(1#2)) (0, 0) (0, -1) 1; mkSV (4, 1#2) (4, 0) (0, 1) 1]
    [(0, 1, 2)%Z] = true.
Proof. exact mesh_ok_example. Qed.
Example C05_edge_triangles_example :
  add_edge_triangles (mkEp 0 0 1 1 false false) (mkEp 2 2 3 3 false false) = [(1, 0, 2)%Z; (1, 2, 3)%Z]
  /\ add_edge_triangles (mkEp 0 0 0 0 false false) (mkEp 0 0 1 1 false false) = [].
Proof. exact edge_triangles_example. Qed.

(* the miter-limit test of the checker IS stroke.rs's miter_limit_is_exceeded, translated from the source on every run *)
Theorem C05_miter_limit_is_source : forall n m, src_miter_limit_is_exceeded n m = miter_limit_is_exceeded n m.
Proof. exact src_miter_limit_is_exceeded_is_model. Qed.

Print Assumptions C05_mesh_ok_sound.
Print Assumptions C05_within_reach_meaning.
Print Assumptions C05_edge_triangles_distinct.
Print Assumptions C05_edge_triangles_at_most_two.
Print Assumptions C05_edge_triangles_ids.
Print Assumptions C05_miter_limit_factor_is_one.
Print Assumptions C05_miter_limit_meaning.
Print Assumptions C05_tangent_corner.
Print Assumptions C05_right_angle_corner.
Print Assumptions C05_miter_tip_within_limit.
Print Assumptions C05_clip_corner_reach.
Print Assumptions C05_clip_corner_within_tip.
Print Assumptions C05_miter_limit_is_source.
