(* C13 - elliptic arcs: endpoint and centre forms agree (algebraic part). *)
From Coq Require Import QArith Qabs.
From LV Require Import Base.Prelude Model.Bezier Model.Arc Proofs.C13_Arc.
Open Scope Q_scope.

(* oracles: (cos_phi, sin_phi) on the unit circle; [sq] returns a non-negative square root at the two
   values the code passes to sqrt (the radii factor when > 1, and the centre coefficient) *)
Definition coe_arg (cos_phi sin_phi : Q) (sq : Q -> Q) (a : svg_arc) : Q :=
  let cf := from_svg_arc cos_phi sin_phi sq a in
  let p := rotated_half_diff cos_phi sin_phi a in
  let rxpy := cf_rx cf * py p in
  let rypx := cf_ry cf * px p in
  let s := rxpy * rxpy + rypx * rypx in
  Qabs ((cf_rx cf * cf_ry cf * (cf_rx cf * cf_ry cf) - s) / s).
Definition sqrt_at (sq : Q -> Q) (x : Q) : Prop := 0 <= sq x /\ sq x * sq x == x.
Definition oracles_ok (cos_phi sin_phi : Q) (sq : Q -> Q) (a : svg_arc) : Prop :=
  cos_phi * cos_phi + sin_phi * sin_phi == 1 /\
  (1 < radii_factor cos_phi sin_phi a -> sqrt_at sq (radii_factor cos_phi sin_phi a)) /\
  sqrt_at sq (coe_arg cos_phi sin_phi sq a).
(* the arc is a real arc: non-zero radii, distinct end points *)
Definition arc_ok (a : svg_arc) : Prop :=
  ~ sa_rx a == 0 /\ ~ sa_ry a == 0 /\ ~ (sa_from a =p= sa_to a).

(* the start / end directions are unit vectors (so they are (cos, sin) of the start / end angles) *)
Theorem C13_unit_vectors : forall cos_phi sin_phi sq a,
  arc_ok a -> oracles_ok cos_phi sin_phi sq a ->
  let cf := from_svg_arc cos_phi sin_phi sq a in
  px (cf_start_v cf) * px (cf_start_v cf) + py (cf_start_v cf) * py (cf_start_v cf) == 1 /\
  px (cf_end_v cf) * px (cf_end_v cf) + py (cf_end_v cf) * py (cf_end_v cf) == 1.
Proof. exact unit_vectors. Qed.

(* the centre-form arc starts and ends at the given points *)
Theorem C13_endpoints_on_ellipse : forall cos_phi sin_phi sq a,
  arc_ok a -> oracles_ok cos_phi sin_phi sq a ->
  let cf := from_svg_arc cos_phi sin_phi sq a in
  ellipse_point cos_phi sin_phi cf (cf_start_v cf) =p= sa_from a /\
  ellipse_point cos_phi sin_phi cf (cf_end_v cf) =p= sa_to a.
Proof. exact endpoints_on_ellipse. Qed.

(* the radii are used as given unless they are too small to span the chord, in which case both are
   scaled by the same factor sqrt(rf) > 1 (and the chord then spans exactly a diameter) *)
Theorem C13_radii_scaled_iff : forall cos_phi sin_phi sq a,
  arc_ok a -> oracles_ok cos_phi sin_phi sq a ->
  let cf := from_svg_arc cos_phi sin_phi sq a in
  let rf := radii_factor cos_phi sin_phi a in
  (rf <= 1 -> cf_rx cf == Qabs (sa_rx a) /\ cf_ry cf == Qabs (sa_ry a)) /\
  (1 < rf -> cf_rx cf == Qabs (sa_rx a) * sq rf /\ cf_ry cf == Qabs (sa_ry a) * sq rf /\ 1 < sq rf).
Proof. exact radii_scaled_iff. Qed.

(* the sweep direction is the one selected by the sweep flag *)
Theorem C13_sweep_sign : forall two_pi flag raw, 0 < two_pi -> - two_pi < raw -> raw < two_pi ->
  let r := adjust_sweep two_pi flag raw in
  (flag = true -> 0 <= r /\ r < two_pi) /\ (flag = false -> - two_pi < r /\ r <= 0).
Proof. exact sweep_sign. Qed.

(* converting back: flags computed from the sweep angle *)
Theorem C13_to_svg_flags : forall pi s, 0 < pi ->
  (snd (to_svg_flags pi s) = true <-> 0 <= s) /\
  (fst (to_svg_flags pi s) = true <-> pi <= Qabs s).
Proof. exact to_svg_flags_spec. Qed.

(* the Bezier pieces cover the angle range in order: piece i starts at the angle where piece i-1
   ended, parameter ranges are contiguous from 0 and the last one ends at exactly 1 *)
Fixpoint pieces_chain (a t : Q) (l : list (Q * Q * Q * Q)) : Prop :=
  match l with
  | [] => True
  | (a1, a2, t0, t1) :: r => a1 == a /\ t0 == t /\ pieces_chain a2 t1 r
  end.
Theorem C13_bezier_chain : forall n start sweep_abs sign, (0 < n)%nat ->
  let l := arc_bezier_pieces n start sweep_abs sign in
  length l = n /\ pieces_chain start 0 l /\
  (exists a1 a2 t0, last l (0, 0, 0, 0) = (a1, a2, t0, 1) /\ a2 == start + sweep_abs * sign).
Proof. exact bezier_chain. Qed.

(* non-vacuity: a quarter circle of radius 5 from (5,0) to (0,5), rotation 0, sqrt oracle exact *)
Example C13_oracles_ok_example :
  let a := mkSvgArc (5, 0) (0, 5) 5 5 false true in
  arc_ok a /\ oracles_ok 1 0 (fun x => if Qeq_bool x 0 then 0 else 1) a.
Proof.
  split.
  - unfold arc_ok, peq; cbn. split; [intro H; discriminate H|]. split; [intro H; discriminate H|].
    intros [H _]; discriminate H.
  - unfold oracles_ok, sqrt_at. split; [reflexivity|]. split.
    + intro H. vm_compute in H. discriminate.
    + vm_compute. split; [discriminate | reflexivity].
Qed.

Print Assumptions C13_unit_vectors.
Print Assumptions C13_endpoints_on_ellipse.
Print Assumptions C13_radii_scaled_iff.
Print Assumptions C13_sweep_sign.
Print Assumptions C13_to_svg_flags.
Print Assumptions C13_bezier_chain.
