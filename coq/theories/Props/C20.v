(* C20 - hatch segments lie exactly on the even-odd interior of each row, at the set spacing.
   Structural theorems hold for ANY abscissa function [solve_x] and ANY addition used for
   `y += offset`; the geometric theorem instantiates [solve_x] with the exact abscissa. *)
From Coq Require Import QArith Qminmax Permutation Sorted.
From LV Require Import Base.Prelude Model.Bezier Model.Hatch Proofs.C20_Hatch.
Open Scope Q_scope.

(* consecutive pairs of a list: [x0;x1;x2;x3;x4] -> [(x0,x1);(x2,x3)] *)
Fixpoint pair_up (l : list Q) : list (Q * Q) :=
  match l with
  | a :: b :: r => (a, b) :: pair_up r
  | _ => []
  end.

(* an empty path, or one made only of isolated points / zero-length edges, produces no event and
   therefore no output (and no panic: the model's [hatch] is total) *)
Theorem C20_no_edges_no_output : forall solve_x fadd fsub uvx uvy offsets,
  hatch solve_x fadd fsub [] uvx uvy offsets = [].
Proof. exact no_edges_no_output. Qed.

Theorem C20_points_give_no_events : forall p : hpath,
  Forall (fun s => Forall (fun q => peqb (fst s) q = true) (snd s)) p -> build_events p = [].
Proof. exact points_give_no_events. Qed.

(* every event is oriented downwards (from <= to in (y, x) order), none is zero-length, and the
   list is sorted by start position *)
Theorem C20_events_oriented : forall p e, In e (build_events p) ->
  pos_gt (fst e) (snd e) = false /\ peqb (fst e) (snd e) = false.
Proof. exact events_oriented. Qed.

Theorem C20_events_sorted : forall p,
  StronglySorted (fun a b => pos_gt (fst a) (fst b) = false) (build_events p).
Proof. exact events_sorted. Qed.

(* one row: the emitted segments are the consecutive pairs of the abscissae, in the order of the
   (stably) sorted active list, of the active edges that do not end at or above the row *)
Theorem C20_row_pairs : forall solve_x fsub y uvx uvy row act,
  let sorted := fst (hatch_line solve_x fsub y uvx uvy row act) in
  map (fun s => (hs_ax s, hs_bx s)) (snd (hatch_line solve_x fsub y uvx uvy row act))
  = pair_up (map (fun e => solve_x e y) (filter (fun e => negb (Qle_bool (py (snd e)) y)) sorted))
  /\ Permutation sorted act
  /\ StronglySorted (fun a b => Qltb (solve_x b y) (solve_x a y) = false) sorted.
Proof. exact row_pairs. Qed.

(* u and v coordinates and the row index of every segment *)
Theorem C20_row_uv : forall solve_x fsub y uvx uvy row act s,
  In s (snd (hatch_line solve_x fsub y uvx uvy row act)) ->
  hs_row s = row /\ hs_y s = y /\ hs_v s = fsub y uvy /\ hs_au s = fsub (hs_ax s) uvx /\ hs_bu s = fsub (hs_bx s) uvx.
Proof. exact row_uv. Qed.

(* the active set: on every hatched row the active edges crossing the row (half-open rule
   from.y <= y < to.y) are exactly the events crossing it - the lazy removal in
   update_sweep_line never drops an edge that still matters, and every edge starting at or
   above the row has been added *)
(* Needs a monotone addition (true of Qplus and of exactly-rounded f32 addition): with an arbitrary
   [fadd] the row height could fall back below the start of an already active edge -
   [C20_active_set_counterexample] is the machine-checked refutation of the unrestricted statement. *)
Theorem C20_active_set : forall solve_x fadd fsub,
  (forall a o, 0 < o -> a <= fadd a o) ->
  forall events uvx uvy offsets y act,
  StronglySorted (fun a b => pos_gt (fst a) (fst b) = false) events ->
  (forall e, In e events -> pos_gt (fst e) (snd e) = false) ->
  In (y, act) (hatch_rows solve_x fadd fsub events uvx uvy offsets) ->
  Permutation (filter (crosses y) act) (filter (crosses y) events)
  /\ (forall e, In e act -> negb (Qle_bool (py (snd e)) y) = true -> crosses y e = true).
Proof. exact active_set_partial. Qed.

(* the counterexample to the unrestricted statement, machine-checked *)
Theorem C20_active_set_counterexample :
  let fadd := fun a o : Q => if Qle_bool 1 a then - (1) else a + o in
  let e : hedge := ((0, 0), (0, 10)) in
  StronglySorted (fun a b => pos_gt (fst a) (fst b) = false) [e]
  /\ (forall e', In e' [e] -> pos_gt (fst e') (snd e') = false)
  /\ In (- (1), [e]) (hatch_rows exact_solve_x fadd Qminus [e] 0 0 [1; 1; 1])
  /\ In e [e]
  /\ negb (Qle_bool (py (snd e)) (- (1))) = true
  /\ crosses (- (1)) e = false.
Proof. exact active_set_counterexample. Qed.

(* rows are spaced by the offsets the pattern returned: the k-th hatched row is at
   first.y + o_0 + ... + o_k (left fold of the addition), with row indices 0, 1, 2, ... *)
Theorem C20_row_positions : forall solve_x fadd fsub first rest uvx uvy offsets k y act,
  nth_error (hatch_rows solve_x fadd fsub (first :: rest) uvx uvy offsets) k = Some (y, act) ->
  y = fold_left fadd (firstn (S k) offsets) (py (fst first)).
Proof. exact row_positions. Qed.

(* geometry, with the exact abscissa: a point of a hatched row that is not at a crossing lies in
   one of the row's segments iff an odd number of the row's crossing edges are to its left,
   i.e. iff it is inside under the even-odd rule *)
(* Stated in two forms.  A row crossed an odd number of times (which a closed path never does) leaves
   an unpaired last crossing: [C20_row_even_odd_counterexample] refutes the plain iff there. *)
(* proved when the row is crossed an even number of times (any closed path) *)
Theorem C20_row_even_odd_closed : forall fsub y uvx uvy row act x,
  Nat.even (length (filter (fun e => negb (Qle_bool (py (snd e)) y)) act)) = true ->
  (forall e, In e act -> negb (Qle_bool (py (snd e)) y) = true -> ~ exact_solve_x e y == x) ->
  (exists s, In s (snd (hatch_line exact_solve_x fsub y uvx uvy row act)) /\ hs_ax s < x /\ x < hs_bx s)
  <-> Nat.odd (length (filter (fun e => negb (Qle_bool (py (snd e)) y) && Qltb (exact_solve_x e y) x) act)) = true.
Proof. exact row_even_odd_partial. Qed.

(* without the parity assumption: odd, and not to the right of an unpaired last crossing *)
Theorem C20_row_even_odd : forall fsub y uvx uvy row act x,
  (forall e, In e act -> negb (Qle_bool (py (snd e)) y) = true -> ~ exact_solve_x e y == x) ->
  (exists s, In s (snd (hatch_line exact_solve_x fsub y uvx uvy row act)) /\ hs_ax s < x /\ x < hs_bx s)
  <-> (Nat.odd (length (filter (fun e => negb (Qle_bool (py (snd e)) y) && Qltb (exact_solve_x e y) x) act)) = true
       /\ (length (filter (fun e => negb (Qle_bool (py (snd e)) y) && Qltb (exact_solve_x e y) x) act)
           < length (filter (fun e => negb (Qle_bool (py (snd e)) y)) act))%nat).
Proof. exact row_even_odd_general. Qed.

Theorem C20_row_even_odd_counterexample :
  let act : list hedge := [((0, 0), (0, 10))] in let y := 5 in let x := 1 in
  (forall e, In e act -> negb (Qle_bool (py (snd e)) y) = true -> ~ exact_solve_x e y == x)
  /\ snd (hatch_line exact_solve_x Qminus y 0 0 0%Z act) = []
  /\ Nat.odd (length (filter (fun e => negb (Qle_bool (py (snd e)) y) && Qltb (exact_solve_x e y) x) act)) = true.
Proof. exact row_even_odd_counterexample. Qed.

Example C20_example :
  (* a 4x4 square hatched with unit offsets: three rows (y = 1, 2, 3), one segment each *)
  length (hatch exact_solve_x Qplus Qminus (build_events [((0,0), [(4,0); (4,4); (0,4)])]) 0 0 [1; 1; 1; 1; 1]) = 3%nat
  /\ map fst (hatch_rows exact_solve_x Qplus Qminus (build_events [((0,0), [(4,0); (4,4); (0,4)])]) 0 0 [1; 1; 1; 1; 1])
     = [1; 2; 3].
Proof. split; vm_compute; reflexivity. Qed.

Print Assumptions C20_no_edges_no_output.
Print Assumptions C20_points_give_no_events.
Print Assumptions C20_events_oriented.
Print Assumptions C20_events_sorted.
Print Assumptions C20_row_pairs.
Print Assumptions C20_row_uv.
Print Assumptions C20_active_set.
Print Assumptions C20_active_set_counterexample.
Print Assumptions C20_row_positions.
Print Assumptions C20_row_even_odd_closed.
Print Assumptions C20_row_even_odd.
Print Assumptions C20_row_even_odd_counterexample.
