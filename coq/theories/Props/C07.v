(* C07 - fill vertices report where they come from and interpolate attributes accordingly.
   Model: Model/Sources.v (tied to fill.rs by Run/C07.v on every recorded vertex, bit-exact for the
   attribute arithmetic and for remap_t_in_range).  Statements only; proofs in Proofs/C07_Sources.v. *)
From Coq Require Import QArith.
From LV Require Import Base.Prelude Model.Bezier Model.Sources Proofs.C07_Sources Gen.Functions Proofs.Gen_Geom.
Open Scope Q_scope.

(* --- the parameter-range algebra of the sweep --- *)
(* both branches of remap_t_in_range are the same affine map, for increasing, decreasing and empty ranges *)
Theorem C07_remap_affine : forall v s e, remap_t_in_range v s e == s + v * (e - s).
Proof. exact remap_affine. Qed.

(* cutting a piece of an input edge at local parameter v: both parts meet at the point at fraction v of the
   piece, and the outer ends do not move *)
Theorem C07_cut_sound : forall p v,
  pc_from (cut_lower p v) =p= plerp (pc_from p) (pc_to p) v /\
  pc_to (cut_upper p v) =p= plerp (pc_from p) (pc_to p) v /\
  pc_from (cut_upper p v) = pc_from p /\ pc_to (cut_lower p v) = pc_to p.
Proof. exact cut_sound. Qed.

(* any sequence of cuts of lower parts keeps designating the right point: by induction, the piece reached
   after cutting at local parameters vs starts at the point obtained by walking those fractions *)
Theorem C07_cuts_sound : forall vs p,
  pc_from (fold_left cut_lower vs p) =p= fold_left (fun q v => plerp q (pc_to p) v) vs (pc_from p)
  /\ pc_to (fold_left cut_lower vs p) = pc_to p.
Proof. exact cuts_sound. Qed.

(* the discipline used by process_edges_above before the fix (lower part keeps the upper part's start
   parameter) reports a wrong parameter: the property's example, edge (0,0)->(0,10) split at (0,5), crossing
   at (0,7.5), reported at t = 1/2 *)
Theorem C07_stale_start_refuted :
  let p := mkPiece (0, 0) (0, 10) 0 1 in
  stale_point p (1#2) (1#2) =p= (0, 15#2) /\
  stale_report p (1#2) (1#2) == 1#2 /\
  ~ (plerp (pc_a p) (pc_b p) (stale_report p (1#2) (1#2)) =p= stale_point p (1#2) (1#2)).
Proof. exact stale_start_refuted. Qed.

(* a curve flattened in reverse: the point at parameter t of the flipped curve is the point at 1 - t of the
   original (the conversion the event queue applies since the fix) *)
Theorem C07_flipped_quadratic_parameter : forall c t, q_sample (q_flip c) t =p= q_sample c (1 - t).
Proof. exact flipped_quadratic_parameter. Qed.
Theorem C07_flipped_cubic_parameter : forall c t, c_sample (c_flip c) t =p= c_sample c (1 - t).
Proof. exact flipped_cubic_parameter. Qed.

(* --- the source iterator --- *)
(* no two consecutive sources are equal *)
Theorem C07_sources_no_consecutive_duplicates : forall l a b pre post,
  sources l = pre ++ a :: b :: post -> vsource_eqb a b = false.
Proof. exact sources_no_consecutive_duplicates. Qed.
(* every sibling is represented, and every source comes from a sibling *)
Theorem C07_sources_complete : forall l s, In s l -> exists v, In v (sources l) /\ vsource_eqb (classify s) v = true.
Proof. exact sources_complete. Qed.
Theorem C07_sources_sound : forall l v, In v (sources l) -> exists s, In s l /\ v = classify s.
Proof. exact sources_sound. Qed.
(* at least one source whenever the sibling list is not empty *)
Theorem C07_sources_nonempty : forall l, l <> [] -> sources l <> [].
Proof. exact sources_nonempty. Qed.
(* as_endpoint_id is the first endpoint among the sources *)
Theorem C07_as_endpoint_is_first_endpoint_source : forall l, as_endpoint_id l = first_endpoint (sources l).
Proof. exact as_endpoint_is_first_endpoint_source. Qed.

(* --- attributes --- *)
Theorem C07_lerp_attr_exact : forall t a b, lerp_attr (fun x => x) t a b == a * (1 - t) + b * t.
Proof. exact lerp_attr_exact. Qed.

(* in exact arithmetic the result is the average over the sources, attribute by attribute *)
Theorem C07_interp_is_average : forall (ss : list src) (n : nat),
  ss <> [] -> (forall s, In s ss -> length (src_attrs (fun x => x) s) = n) ->
  exists a, interp (fun x => x) ss = Some a /\ length a = n /\
    forall k, (k < n)%nat ->
      nth k a 0 == fold_right (fun s acc => nth k (src_attrs (fun x => x) s) 0 + acc) 0 ss
                   / inject_Z (Z.of_nat (length ss)).
Proof. exact interp_is_average. Qed.

(* attributes that are an affine function of position are reproduced at every vertex whose sources are
   endpoints / line edges designating the vertex position (any number of sources, any number of attributes) *)
Theorem C07_attrs_affine : forall (cs : list aff3) (pos : qpt) (ss : list src),
  ss <> [] -> (forall s, In s ss -> src_affine cs s /\ src_point s =p= pos) ->
  exists a, interp (fun x => x) ss = Some a /\ Forall2 Qeq a (attrs_at cs pos).
Proof. exact attrs_affine. Qed.

(* the decision the runner makes per source means what it says *)
Theorem C07_src_sound_spec : forall slack2 pos s, src_sound slack2 pos s = true ->
  match s with
  | SEnd p _ => p =p= pos
  | _ => pdist2 pos (src_point s) <= slack2
  end.
Proof. exact src_sound_spec. Qed.

(* non-vacuity: a vertex at the crossing of two edges carrying the attribute 1 + 2x - y *)
Example C07_attrs_affine_example :
  let cs := [(1, 2, -1)] in
  let ss := [SLine (0, 0) (4, 4) (1#2) (attrs_at cs (0, 0)) (attrs_at cs (4, 4));
             SLine (4, 0) (0, 4) (1#2) (attrs_at cs (4, 0)) (attrs_at cs (0, 4))] in
  (forall s, In s ss -> src_affine cs s /\ src_point s =p= (2, 2)) /\
  exists a, interp (fun x => x) ss = Some a /\ Forall2 Qeq a [3].
Proof. exact attrs_affine_example. Qed.

(* fill.rs's remap_t_in_range, translated from the source text on every run (tools/rs2coq.py), IS the model's (exact
   arithmetic); with C07_remap_affine: the source function is the affine map in both branches *)
Theorem C07_remap_is_source : forall v s e, src_remap_t_in_range v s e = remap_t_in_range v s e.
Proof. exact src_remap_t_in_range_is_model. Qed.

Theorem C07_src_remap_affine : forall v s e, src_remap_t_in_range v s e == s + v * (e - s).
Proof. intros v s e. rewrite src_remap_t_in_range_is_model. exact (C07_remap_affine v s e). Qed.

Print Assumptions C07_remap_affine.
Print Assumptions C07_cut_sound.
Print Assumptions C07_cuts_sound.
Print Assumptions C07_stale_start_refuted.
Print Assumptions C07_flipped_quadratic_parameter.
Print Assumptions C07_flipped_cubic_parameter.
Print Assumptions C07_sources_no_consecutive_duplicates.
Print Assumptions C07_sources_complete.
Print Assumptions C07_sources_sound.
Print Assumptions C07_sources_nonempty.
Print Assumptions C07_as_endpoint_is_first_endpoint_source.
Print Assumptions C07_lerp_attr_exact.
Print Assumptions C07_interp_is_average.
Print Assumptions C07_attrs_affine.
Print Assumptions C07_src_sound_spec.
Print Assumptions C07_remap_is_source.
Print Assumptions C07_src_remap_affine.
