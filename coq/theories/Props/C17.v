(* C17 - the path-syntax parser is total and protocol-safe, and parses printed paths back.
   Quantified over ALL strings (lists of code points), ALL attribute counts, stop characters,
   ALL instantiations of the number type / arithmetic / text->number conversion / Unicode
   character classes, ALL arc-oracle streams and ANY attribute buffer left behind by a previous
   use of the parser object. *)
From LV Require Import Base.Prelude Model.Parser Model.Printer Proofs.C17_Parser Proofs.C17_RoundTrip.
Open Scope Z_scope.

Section C17.
Variable F : Type.
Variables (fzero fone : F) (fadd fsub fmul : F -> F -> F).
Variable parse_f32 : list Z -> option F.
Variables is_ws is_num : Z -> bool.
Variable n_attr : nat.
Variable stop_at : option Z.

Let run := parse F fzero fone fadd fsub fmul parse_f32 is_ws is_num n_attr stop_at.

(* total: the loop fuel is never exhausted and no attribute index is out of range, i.e. the
   outcome is success or one of the four ParseError kinds with a line and a column.
   Hypothesis on the external text->number conversion: the empty text is not a number (true of
   Rust's "".parse::<f32>(); the correspondence run's instance satisfies it, see Run/C17.v).
   Without it the statement is false of the model - Proofs/C17_Parser.v proves the refutation
   [parse_total_counterexample]: with parse_f32 := fun _ => Some 0 the text "M!" exhausts the fuel
   (an implicit command repeats without consuming input). *)
Theorem C17_parse_total : parse_f32 [] = None -> forall attr0 oracles text,
  snd (run attr0 oracles text) <> Some EFuel /\ snd (run attr0 oracles text) <> Some EPanic.
Proof. exact (parse_total_partial F fzero fone fadd fsub fmul parse_f32 is_ws is_num n_attr stop_at). Qed.

(* no attribute index is ever out of range, whatever the conversion *)
Theorem C17_parse_no_panic : forall attr0 oracles text,
  snd (run attr0 oracles text) <> Some EPanic.
Proof. exact (parse_no_panic F fzero fone fadd fsub fmul parse_f32 is_ws is_num n_attr stop_at). Qed.

(* in both cases the output builder has been driven with properly nested, closed calls *)
Theorem C17_parse_protocol : forall attr0 oracles text,
  pnested F false (fst (run attr0 oracles text)) = true.
Proof. exact (parse_protocol F fzero fone fadd fsub fmul parse_f32 is_ws is_num n_attr stop_at). Qed.

(* path data that does not start with a move-to is rejected, before anything is built *)
Definition drawing_letter (c : Z) : bool :=
  let lc := to_lower c in
  is_alpha c && ((lc =? 108) || (lc =? 104) || (lc =? 118) || (lc =? 113) || (lc =? 116)
                 || (lc =? 99) || (lc =? 115) || (lc =? 97) || (lc =? 122)).

Theorem C17_must_start_with_moveto : forall attr0 oracles text,
  let s := skip_whitespace is_ws (source_new text) in
  sr_fin s = false -> drawing_letter (sr_cur s) = true -> stop_at <> Some (sr_cur s) ->
  run attr0 oracles text = ([], Some (EMissingMoveTo (sr_cur s) (sr_line s) (sr_col s))).
Proof. exact (must_start_with_moveto F fzero fone fadd fsub fmul parse_f32 is_ws is_num n_attr stop_at). Qed.

(* the result does not depend on what a previous use left in the parser's attribute buffer *)
Theorem C17_buffer_independent : forall attr0 attr0' oracles text,
  run attr0 oracles text = run attr0' oracles text.
Proof. exact (buffer_independent F fzero fone fadd fsub fmul parse_f32 is_ws is_num n_attr stop_at). Qed.

(* ---------------------------------------------------------------- round trip
   Printing any stored path (Model/Printer.v: the Debug printer of PathSlice, quotes stripped; the
   path is given by the builder calls that re-create it, custom attributes included) and parsing
   the text back yields exactly those calls and no error - for EVERY well-nested call sequence
   whose attribute lists have the parser's attribute count, every text->number conversion and
   every number printer [fmt], provided each number that occurs survives on its own:
   its text has the shape the number lexer consumes (num_shape: [-] digits [. digits]
   [(e|E) [-] digits]) and converts back to it.  Both facts are validated for Rust's {:?} of f32
   on every run (all finite f32 bit patterns sampled; NaN and the infinities print as words and
   are excluded by the hypothesis).  Hypotheses on the character classes: ASCII characters are
   numeric exactly when they are digits, the space is white space and no other printable ASCII
   character is (true of char::is_numeric / char::is_whitespace); the stop character, if any, is
   not one of the letters the printer emits. *)
Variable fmt : F -> list Z.

Definition C17_num_ok (v : F) : Prop := num_shape (fmt v) = true /\ parse_f32 (fmt v) = Some v.
Definition C17_call_ok (c : pcall F) : Prop :=
  Forall C17_num_ok (call_nums F c) /\ (forall n, call_attrs_len F c = Some n -> n = n_attr).

Theorem C17_print_parse_roundtrip :
  (forall c, 0 <= c < 128 -> is_num c = is_digit c) ->
  is_ws 32 = true -> (forall c, 33 <= c < 128 -> is_ws c = false) ->
  (forall c, stop_at = Some c -> ~ In c [77; 76; 81; 67; 90]) ->
  forall calls, pnested F false calls = true -> Forall C17_call_ok calls ->
  forall attr0 oracles, run attr0 oracles (print F fmt calls) = (calls, None).
Proof. exact (print_parse_roundtrip F fzero fone fadd fsub fmul parse_f32 is_ws is_num n_attr stop_at fmt). Qed.

End C17.

(* the (line, column) carried by a Source is the position of its current character: after k
   characters have been consumed it is [pos_of text k]; every error of the model reports the
   line/column of the Source at the start of the offending token *)
Theorem C17_source_position : forall text k, (k < length text)%nat ->
  let s := Nat.iter k advance_one (source_new text) in
  sr_fin s = false /\ sr_cur s = nth k text 0 /\ (sr_line s, sr_col s) = pos_of text k.
Proof. exact source_position. Qed.

Example C17_example_total :
  (* "M1 2L" with ASCII classes and a toy number reader: an error, not a crash *)
  exists e, snd (parse Z 0 1 Z.add Z.sub Z.mul (fun b => match b with [c] => Some (c - 48) | _ => None end)
                       (fun c => c =? 32) (fun c => (48 <=? c) && (c <=? 57)) 0 None [] [] [77; 49; 32; 50; 76]) = Some e.
Proof. vm_compute. eexists; reflexivity. Qed.

(* non-vacuity of the round trip: numbers are their own texts; three sub-paths (closed, open, a
   lone move-to), one attribute, texts "-1.5", "1e-7", "0" *)
Example C17_example_roundtrip :
  let T := list Z in
  let n1 : T := [45; 49; 46; 53] in let n2 : T := [49; 101; 45; 55] in let n3 : T := [48] in
  let calls : list (pcall T) :=
    [PBegin _ (n1, n2) [n3]; PLine _ (n2, n2) [n1]; PQuad _ (n1, n1) (n3, n3) [n2]; PEnd _ true;
     PBegin _ (n1, n2) [n3]; PCubic _ (n1, n1) (n2, n2) (n3, n3) [n3]; PEnd _ false;
     PBegin _ (n3, n3) [n3]; PEnd _ false] in
  forallb (fun c => forallb num_shape (call_nums T c)) calls = true /\
  parse T [48] [49] (fun a _ => a) (fun a _ => a) (fun a _ => a) (fun b => Some b)
        (fun c => c =? 32) (fun c => (48 <=? c) && (c <=? 57)) 1 None [] [] (print T (fun x => x) calls)
  = (calls, None).
Proof. vm_compute. split; reflexivity. Qed.

Print Assumptions C17_print_parse_roundtrip.
Print Assumptions C17_parse_total.
Print Assumptions C17_parse_no_panic.
Print Assumptions C17_parse_protocol.
Print Assumptions C17_must_start_with_moveto.
Print Assumptions C17_buffer_independent.
Print Assumptions C17_source_position.
