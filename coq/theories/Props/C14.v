(* C14 - every view of a stored path tells the same story, safely.
   This file contains only the property theorems (closed by [exact] of a lemma
   proved in Proofs/), their statement pins and Print Assumptions. *)
From LV Require Import Base.Prelude Model.PathStore Model.PathSpec Proofs.C14_PathStore Model.Polygon Proofs.C14_Polygon
                       Model.Commands Proofs.C14_Commands Model.PathBuffer Proofs.C14_PathBuffer.

(* A path built by ANY well-nested builder program, with ANY attribute count,
   read back with attribute-carrying events, yields exactly the program's
   events; no read leaves the storage (the model returns [None] on such a read). *)
Theorem C14_iter_attr_spec : forall n prog, attrs_ok n prog ->
  iter_attr (build n (ops_of prog)) = Some (spec_events prog).
Proof. exact iter_attr_spec. Qed.

Theorem C14_iter_spec : forall n prog, attrs_ok n prog ->
  iter (build n (ops_of prog)) = Some (map strip (spec_events prog)).
Proof. exact iter_spec. Qed.

(* id events resolved through the position / attribute stores *)
Theorem C14_id_iter_resolves : forall n prog, attrs_ok n prog ->
  id_iter_resolved (build n (ops_of prog)) = Some (spec_events prog).
Proof. exact id_iter_resolves. Qed.

(* the ids handed back by the builder calls name the endpoint just added *)
Definition endpoint_of_op (o : bop) : option (pt * list Z) :=
  match o with
  | OBegin p a | OLine p a | OQuad _ p a | OCubic _ _ p a => Some (p, a)
  | OEnd _ => None
  end.

Theorem C14_builder_ids : forall n prog, attrs_ok n prog ->
  Forall2 (fun o id => match endpoint_of_op o with
                       | Some e => ep_at (build n (ops_of prog)) id = Some e
                       | None => True end)
          (ops_of prog) (build_ids n (ops_of prog)).
Proof. exact builder_ids. Qed.

(* each sub-path is Begin, edges, End; each edge starts where the previous one
   ended; End names the sub-path's first point *)
Theorem C14_events_well_formed : forall prog,
  wf_events ep_eqb None (spec_events prog) = true.
Proof. exact events_well_formed. Qed.

(* the reversed view is the reversed program ... *)
Theorem C14_reversed_spec : forall n prog, attrs_ok n prog ->
  reversed (build n (ops_of prog)) = Some (spec_events (rev_prog prog)).
Proof. exact reversed_spec. Qed.

(* ... and reversing twice (through Reversed::into_path, which replays the
   events into a builder) gives the original *)
Theorem C14_reversed_twice : forall n prog evs, attrs_ok n prog ->
  reversed (build n (ops_of prog)) = Some evs ->
  reversed (build n (map op_of_event evs)) = Some (spec_events prog).
Proof. exact reversed_twice. Qed.

Theorem C14_first_last_endpoint : forall n prog, attrs_ok n prog ->
  first_endpoint (build n (ops_of prog))
    = Some (match prog with [] => None | s :: _ => Some (sp_at s, sp_attrs s) end).
Proof. exact first_endpoint_spec. Qed.

(* concatenating stored paths = storing the concatenated programs *)
Theorem C14_concat_spec : forall n progs, Forall (attrs_ok n) progs ->
  concat_paths n (map (fun p => build n (ops_of p)) progs) = build n (ops_of (concat progs)).
Proof. exact concat_spec. Qed.

(* non-vacuity: a concrete non-trivial program meets the hypothesis *)
Example C14_hyp_satisfiable :
  attrs_ok 3 [mkSub (1,2)%Z [7;8;9]%Z
                [ELine (3,4)%Z [1;2;3]%Z; EQuad (5,6)%Z (7,8)%Z [4;5;6]%Z] true;
              mkSub (9,9)%Z [0;0;0]%Z [] false].
Proof. repeat constructor. Qed.

(* --- polygon views (Model/Polygon.v) --- *)
(* random access by event id agrees with iteration, for every non-empty polygon and every id 0 .. len *)
Theorem C14_polygon_event_is_nth : forall pts closed i,
  pts <> [] -> (i <= length pts)%nat ->
  nth_error (poly_events pts closed) i = Some (poly_event pts closed i).
Proof. exact poly_event_is_nth. Qed.
(* the id events resolved through the polygon's points are its events *)
Theorem C14_polygon_id_events : forall pts closed, poly_id_events pts closed = poly_events pts closed.
Proof. exact poly_id_events_are_events. Qed.
(* an empty polygon has no event in any view *)
Theorem C14_polygon_empty : forall closed, poly_events [] closed = [] /\ poly_id_events [] closed = [].
Proof. exact poly_events_empty. Qed.
(* the index comparison used before the fix (End at len - 1) is wrong on a square *)
Theorem C14_polygon_event_old_refuted :
  let pts := [(0, 0); (1, 0); (1, 1); (0, 1)]%Z in
  nth_error (poly_events pts true) 3 = Some (EvLine (1, 1)%Z (0, 1)%Z) /\
  poly_event_old pts true 3 = EvEnd (0, 1)%Z (0, 0)%Z true /\
  poly_event pts true 3 = EvLine (1, 1)%Z (0, 1)%Z /\
  poly_event pts true 4 = EvEnd (0, 1)%Z (0, 0)%Z true.
Proof. exact poly_event_old_refuted. Qed.

(* ---------------------------------------------------------------- a command buffer with external storage
   (Model/Commands.v: statement-level model of commands.rs; every raw read of the buffer or of the two stores is
   explicit, an out-of-bounds read is the outcome RPanic).  For EVERY well-nested program of ids: *)

(* iteration yields exactly the program's id events *)
Theorem C14_commands_iter : forall p, cop_nested p = true ->
  cmd_iter (cmd_build p) = ROk (cop_events p).
Proof. exact cmd_iter_spec. Qed.

(* random access: event(id) along next_event_id_in_path, starting at EventId(0), enumerates the events of iteration in
   order, the ids visited are exactly the EventIds the builder returned, and no read leaves the buffer *)
Theorem C14_commands_random_access : forall p, cop_nested p = true -> p <> [] ->
  exists l, cmd_walk (length (cmd_build p)) (cmd_build p) 0 = ROk l /\
            map snd l = cop_events p /\
            map fst l = cmd_build_ids p /\
            cmd_iter_idx (cmd_build p) = ROk l.
Proof. exact cmd_event_spec. Qed.

(* next_event_id_in_sub_path: the successor inside a sub-path; from an End it loops back to the sub-path's Begin *)
Theorem C14_commands_sub_path : forall p l, cop_nested p = true ->
  cmd_walk (length (cmd_build p)) (cmd_build p) 0 = ROk l ->
  (forall l1 id e l2, l = l1 ++ (id, e) :: l2 -> is_end e = false ->
     exists id' e' l3, l2 = (id', e') :: l3 /\
       cmd_next_in_sub_path (cmd_build p) id = Some id' /\
       cmd_next_in_path (cmd_build p) id = Some (Some id')) /\
  (forall l1 b a mid id la fi cl l2,
     l = l1 ++ (b, EvBegin a) :: mid ++ (id, EvEnd la fi cl) :: l2 ->
     forallb (fun x => negb (is_begin (snd x))) mid = true ->
     cmd_next_in_sub_path (cmd_build p) id = Some b).
Proof. exact cmd_sub_path_spec. Qed.

(* ---------------------------------------------------------------- an entry of a path buffer
   (Model/PathBuffer.v: the builders swap the shared vectors into a path.rs builder, rebase the ids they return and
   push a descriptor).  For EVERY list of (attribute count, program) - attribute counts may differ from path to
   path: *)

(* get(i) is, bit for bit, the path the stand-alone builder makes of the i-th program - so every theorem above about
   the views of a path holds of an entry of a path buffer *)
Theorem C14_path_buffer_entry : forall l i n prog,
  Forall wf_item l -> nth_error l i = Some (n, prog) ->
  pb_get (fst (pb_build_all (map item_ops l))) i = Some (build n (ops_of prog)).
Proof. exact pbuf_get_is_path. Qed.

(* the endpoint ids handed out while building through the buffer are those of the stand-alone builder *)
Theorem C14_path_buffer_ids : forall l i n prog,
  Forall wf_item l -> nth_error l i = Some (n, prog) ->
  nth_error (snd (pb_build_all (map item_ops l))) i = Some (build_ids n (ops_of prog)).
Proof. exact pbuf_ids. Qed.

(* as many entries as programs, numbered in order; an index past the end is refused (None = the index panic) *)
Theorem C14_path_buffer_len : forall l,
  Forall wf_item l ->
  length (pb_paths (fst (pb_build_all (map item_ops l)))) = length l /\
  forall i, i < length l -> nth_error (pb_build_indices (map item_ops l)) i = Some i.
Proof. exact pbuf_len. Qed.

Theorem C14_path_buffer_out_of_range : forall l i,
  length l <= i -> pb_get (fst (pb_build_all l)) i = None.
Proof. exact pbuf_get_out_of_range. Qed.

Print Assumptions C14_iter_attr_spec.
Print Assumptions C14_iter_spec.
Print Assumptions C14_id_iter_resolves.
Print Assumptions C14_builder_ids.
Print Assumptions C14_events_well_formed.
Print Assumptions C14_reversed_spec.
Print Assumptions C14_reversed_twice.
Print Assumptions C14_first_last_endpoint.
Print Assumptions C14_concat_spec.
Print Assumptions C14_polygon_event_is_nth.
Print Assumptions C14_polygon_id_events.
Print Assumptions C14_polygon_empty.
Print Assumptions C14_commands_iter.
Print Assumptions C14_commands_random_access.
Print Assumptions C14_commands_sub_path.
Print Assumptions C14_path_buffer_entry.
Print Assumptions C14_path_buffer_ids.
Print Assumptions C14_path_buffer_len.
Print Assumptions C14_path_buffer_out_of_range.
