(* C18 - winding number, hit test, signed area and orientation agree with geometry. *)
From Coq Require Import QArith Qminmax.
From LV Require Import Base.Prelude Model.Bezier Model.Winding Proofs.C18_Winding Gen.Functions Proofs.Gen_Functions
  Proofs.Gen_Geom Proofs.Gen_GeomProps.
Open Scope Q_scope.

(* for a point not on the outline the coded accumulation equals the signed crossing number,
   including points level with vertices and horizontal edges (half-open rule) *)
Theorem C18_hit_wn_spec : forall p path, off_outline p (path_edges path) ->
  path_winding p path = wn p (path_edges path).
Proof. exact hit_wn_spec. Qed.

Theorem C18_hit_test_is_in : forall p path r,
  hit_test p path r = is_in r (path_winding p path).
Proof. exact hit_test_is_in. Qed.

Theorem C18_is_in_spec : forall w,
  (is_in EvenOdd w = true <-> Z.odd w = true) /\ (is_in NonZero w = true <-> w <> 0%Z).
Proof. exact is_in_spec. Qed.

(* anchors of the crossing-number definition *)
Theorem C18_wn_reverse_neg : forall p edges,
  wn p (map (fun e => (snd e, fst e)) edges) = (- wn p edges)%Z.
Proof. exact wn_reverse_neg. Qed.

Theorem C18_wn_app : forall p e1 e2, wn p (e1 ++ e2) = (wn p e1 + wn p e2)%Z.
Proof. exact wn_app. Qed.

Theorem C18_wn_translate : forall p d edges,
  wn (padd p d) (map (fun e => (padd (fst e) d, padd (snd e) d)) edges) = wn p edges.
Proof. exact wn_translate. Qed.

(* Sign convention of lyon (anchored here): an edge whose y increases counts +1 when it is to the left of
   the point.  The triangle (0,0) (1,0) (0,1), whose shoelace/fan area is POSITIVE (Winding::Positive),
   therefore has winding number -1 around its strict interior, and 0 around points outside. *)
Theorem C18_wn_unit_triangle : forall x y, 0 < x -> 0 < y -> x + y < 1 ->
  wn (x, y) (sub_edges ((0,0), [(1,0); (0,1)])) = (-1)%Z.
Proof. exact wn_unit_triangle. Qed.
Theorem C18_wn_unit_triangle_outside : forall x y, (x < 0 \/ y < 0 \/ 1 < x + y) ->
  ~ on_edge (x, y) (0,0) (1,0) -> ~ on_edge (x, y) (1,0) (0,1) -> ~ on_edge (x, y) (0,1) (0,0) ->
  wn (x, y) (sub_edges ((0,0), [(1,0); (0,1)])) = 0%Z.
Proof. exact wn_unit_triangle_outside. Qed.

(* signed area: the fan sum is the shoelace sum; reversal negates it; its sign is the reported winding *)
Theorem C18_area_fan_shoelace : forall s, sub_signed_area s * 2 == shoelace2 (sub_edges s).
Proof. exact area_fan_shoelace. Qed.

Theorem C18_area_reverse_neg : forall s, sub_signed_area (rev_sub s) == - sub_signed_area s.
Proof. exact area_reverse_neg. Qed.

Theorem C18_winding_sign_area : forall s,
  (compute_winding s = Positive <-> 0 < sub_signed_area s).
Proof. exact winding_sign_area. Qed.

Theorem C18_rectangle_direction : forall minp maxp, px minp < px maxp -> py minp < py maxp ->
  0 < sub_signed_area (rect_points minp maxp Positive) /\
  sub_signed_area (rect_points minp maxp Negative) < 0.
Proof. exact rectangle_direction. Qed.

Example C18_off_outline_example :
  path_winding (1#4, 1#4) [((0,0), [(1,0); (0,1)])] = (-1)%Z.
Proof. vm_compute. reflexivity. Qed.

(* the fill rule evaluation of the model (is_in) IS path/lib.rs's FillRule::is_in, translated from the source on every run
   (Gen/Functions.v; Rust's % on i16 is Z.rem) *)
Theorem C18_is_in_is_source : forall r w, src_fill_rule_is_in r w = is_in r w.
Proof. exact src_fill_rule_is_in_is_model. Qed.

(* hit_test.rs's per-segment step, translated from the source on every run (a procedure over `winding: &mut i32`
   read as a function returning the accumulator), IS the model's; and the spec theorem holds of it *)
Theorem C18_test_segment_is_source : forall p a b w, src_test_segment p (mkLine a b) w = test_segment p a b w.
Proof. exact src_test_segment_is_model. Qed.

Theorem C18_src_hit_wn_spec : forall p path, off_outline p (path_edges path) ->
  fold_left (fun w e => src_test_segment p (mkLine (fst e) (snd e)) w) (path_edges path) 0%Z = wn p (path_edges path).
Proof. exact src_hit_wn_spec. Qed.

Print Assumptions C18_hit_wn_spec.
Print Assumptions C18_hit_test_is_in.
Print Assumptions C18_is_in_spec.
Print Assumptions C18_wn_reverse_neg.
Print Assumptions C18_wn_app.
Print Assumptions C18_wn_translate.
Print Assumptions C18_wn_unit_triangle.
Print Assumptions C18_wn_unit_triangle_outside.
Print Assumptions C18_area_fan_shoelace.
Print Assumptions C18_area_reverse_neg.
Print Assumptions C18_winding_sign_area.
Print Assumptions C18_rectangle_direction.
Print Assumptions C18_is_in_is_source.
Print Assumptions C18_test_segment_is_source.
Print Assumptions C18_src_hit_wn_spec.
