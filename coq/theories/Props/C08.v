(* C08 - tessellators carry no state from one call to the next.
   (1) THEOREM, for every table of persistent fields, every per-field initialiser, every run
       function (whatever it leaves behind in the object, also when it fails part-way) whose output
       depends only on the fields listed as read: if the table has no field the preamble leaves
       untouched, then after ANY history of calls, started from ANY object, a call gives exactly the
       output a fresh object gives.
   (2) GENERATED OBLIGATION: the tables of FillTessellator, StrokeTessellator and the pooled monotone
       tessellators, regenerated from the Rust source on every run, have no untouched field
       (a new field that is not reset per call, or a removed reset, breaks this theorem).
   (3) the converse, to show (1)'s hypothesis is the right one: with one untouched field that the
       run reads there is a history that changes the output.
   The frame premise [reads_only] and the translator's classification of each field are
   assumptions about the Rust code; they are validated by history exploration each run
   (harness c08: reused vs fresh tessellators, bit-for-bit), not proved. *)
From Coq Require Import String List Bool.
From LV Require Import Base.Prelude Gen.ResetTable Model.Reuse Proofs.C08_Reuse.
Import ListNotations.
Open Scope string_scope.

Theorem C08_history_independent :
  forall (V I O : Type) (t : table) (init : I -> string -> V) (run : obj V -> I -> obj V * O),
    no_carrier t = true -> reads_only V I O t run ->
    forall (s0 fresh : obj V) (h : list I) (i : I),
      call_output V I O t init run (after V I O t init run s0 h) i = call_output V I O t init run fresh i.
Proof. exact history_independent. Qed.

Theorem C08_fill_table_complete : no_carrier (table_of "FillTessellator") = true.
Proof. vm_compute. reflexivity. Qed.
Theorem C08_stroke_table_complete : no_carrier (table_of "StrokeTessellator") = true.
Proof. vm_compute. reflexivity. Qed.
Theorem C08_monotone_tables_complete :
  no_carrier (table_of "BasicMonotoneTessellator") = true /\ no_carrier (table_of "AdvancedMonotoneTessellator") = true.
Proof. vm_compute. split; reflexivity. Qed.
(* the tables are not empty (the translator found the structs) *)
Theorem C08_tables_nonempty :
  (10 <= length (table_of "FillTessellator"))%nat /\ (2 <= length (table_of "StrokeTessellator"))%nat /\
  (3 <= length (table_of "BasicMonotoneTessellator"))%nat /\ (4 <= length (table_of "AdvancedMonotoneTessellator"))%nat.
Proof. vm_compute. repeat split; repeat constructor. Qed.

(* instantiated: any run over the generated fill / stroke tables *)
Theorem C08_fill_tessellator :
  forall (V I O : Type) (init : I -> string -> V) (run : obj V -> I -> obj V * O),
    reads_only V I O (table_of "FillTessellator") run ->
    forall s0 fresh h i,
      call_output V I O (table_of "FillTessellator") init run (after V I O (table_of "FillTessellator") init run s0 h) i
      = call_output V I O (table_of "FillTessellator") init run fresh i.
Proof. exact fill_tessellator_independent. Qed.
Theorem C08_stroke_tessellator :
  forall (V I O : Type) (init : I -> string -> V) (run : obj V -> I -> obj V * O),
    reads_only V I O (table_of "StrokeTessellator") run ->
    forall s0 fresh h i,
      call_output V I O (table_of "StrokeTessellator") init run (after V I O (table_of "StrokeTessellator") init run s0 h) i
      = call_output V I O (table_of "StrokeTessellator") init run fresh i.
Proof. exact stroke_tessellator_independent. Qed.

(* converse / sensitivity: one untouched field that is read carries state *)
Theorem C08_untouched_field_leaks :
  exists (t : table) (init : nat -> string -> nat) (run : obj nat -> nat -> obj nat * nat),
    no_carrier t = false /\ reads_only nat nat nat t run /\
    exists s0 h i, call_output nat nat nat t init run (after nat nat nat t init run s0 h) i
                   <> call_output nat nat nat t init run s0 i.
Proof. exact untouched_field_leaks. Qed.

(* non-vacuity: a run over the fill table that meets the frame premise and does read its fields *)
Example C08_premise_satisfiable :
  exists run : obj nat -> nat -> obj nat * nat,
    reads_only nat nat nat (table_of "FillTessellator") run /\
    (exists s s', snd (run s 0%nat) <> snd (run s' 0%nat)).
Proof. exact premise_satisfiable. Qed.

Print Assumptions C08_history_independent.
Print Assumptions C08_fill_tessellator.
Print Assumptions C08_stroke_tessellator.
Print Assumptions C08_untouched_field_leaks.
