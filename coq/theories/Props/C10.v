(* C10 - curve operations are consistent with evaluation.
   Only theorem statements, each closed by [exact] of a lemma of Proofs/C10_Bezier.v.
   All statements quantify over ALL control points (degenerate ones included), ALL
   parameters (not only [0,1]) and ALL affine maps; equality is rational equality of
   both coordinates ([=p=]). *)
From Coq Require Import QArith.
From LV Require Import Base.Prelude Model.Bezier Model.LineInter Proofs.C10_Bezier Gen.Functions Proofs.Gen_Geom Proofs.Gen_GeomProps Proofs.Gen_Geom2.
Open Scope Q_scope.

Theorem C10_line_split_l : forall l t u, l_sample (fst (l_split l t)) u =p= l_sample l (t * u).
Proof. exact line_split_l. Qed.

Theorem C10_line_split_r : forall l t u, l_sample (snd (l_split l t)) u =p= l_sample l (t + (1 - t) * u).
Proof. exact line_split_r. Qed.

Theorem C10_line_before_split : forall l t u, l_sample (l_before_split l t) u =p= l_sample l (t * u).
Proof. exact line_before_split. Qed.

Theorem C10_line_after_split : forall l t u, l_sample (l_after_split l t) u =p= l_sample l (t + (1 - t) * u).
Proof. exact line_after_split. Qed.

Theorem C10_line_split_range : forall l a b u, l_sample (l_split_range l a b) u =p= l_sample l (a + (b - a) * u).
Proof. exact line_split_range. Qed.

Theorem C10_line_flip : forall l u, l_sample (l_flip l) u =p= l_sample l (1 - u).
Proof. exact line_flip. Qed.

Theorem C10_line_transformed : forall m l t, l_sample (l_transformed m l) t =p= aff_apply m (l_sample l t).
Proof. exact line_transformed. Qed.

Theorem C10_line_xy : forall l t, l_sample l t =p= (l_x l t, l_y l t).
Proof. exact line_xy. Qed.

Theorem C10_line_derivative : forall l t h, psub (l_sample l (t + h)) (l_sample l t) =p= pscale (l_derivative l) h.
Proof. exact line_derivative. Qed.

Theorem C10_quad_split_l : forall c t u, q_sample (fst (q_split c t)) u =p= q_sample c (t * u).
Proof. exact quad_split_l. Qed.

Theorem C10_quad_split_r : forall c t u, q_sample (snd (q_split c t)) u =p= q_sample c (t + (1 - t) * u).
Proof. exact quad_split_r. Qed.

Theorem C10_quad_before_split : forall c t u, q_sample (q_before_split c t) u =p= q_sample c (t * u).
Proof. exact quad_before_split. Qed.

Theorem C10_quad_after_split : forall c t u, q_sample (q_after_split c t) u =p= q_sample c (t + (1 - t) * u).
Proof. exact quad_after_split. Qed.

Theorem C10_quad_split_range : forall c a b u, q_sample (q_split_range c a b) u =p= q_sample c (a + (b - a) * u).
Proof. exact quad_split_range. Qed.

Theorem C10_quad_flip : forall c u, q_sample (q_flip c) u =p= q_sample c (1 - u).
Proof. exact quad_flip. Qed.

Theorem C10_quad_transformed : forall m c t, q_sample (q_transformed m c) t =p= aff_apply m (q_sample c t).
Proof. exact quad_transformed. Qed.

Theorem C10_quad_xy : forall c t, q_sample c t =p= (q_x c t, q_y c t).
Proof. exact quad_xy. Qed.

Theorem C10_quad_to_cubic : forall c t, c_sample (q_to_cubic c) t =p= q_sample c t.
Proof. exact quad_to_cubic. Qed.

Theorem C10_quad_derivative : forall c t h, psub (q_sample c (t + h)) (q_sample c t) =p= padd (pscale (q_derivative c t) h) (pscale (q_second c) (h * h)).
Proof. exact quad_derivative. Qed.

Theorem C10_quad_endpoints : forall c, q_sample c 0 =p= q_from c /\ q_sample c 1 =p= q_to c.
Proof. exact quad_endpoints. Qed.

Theorem C10_cubic_split_l : forall c t u, c_sample (fst (c_split c t)) u =p= c_sample c (t * u).
Proof. exact cubic_split_l. Qed.

Theorem C10_cubic_split_r : forall c t u, c_sample (snd (c_split c t)) u =p= c_sample c (t + (1 - t) * u).
Proof. exact cubic_split_r. Qed.

Theorem C10_cubic_before_split : forall c t u, c_sample (c_before_split c t) u =p= c_sample c (t * u).
Proof. exact cubic_before_split. Qed.

Theorem C10_cubic_after_split : forall c t u, c_sample (c_after_split c t) u =p= c_sample c (t + (1 - t) * u).
Proof. exact cubic_after_split. Qed.

Theorem C10_cubic_split_range : forall c a b u, c_sample (c_split_range c a b) u =p= c_sample c (a + (b - a) * u).
Proof. exact cubic_split_range. Qed.

Theorem C10_cubic_flip : forall c u, c_sample (c_flip c) u =p= c_sample c (1 - u).
Proof. exact cubic_flip. Qed.

Theorem C10_cubic_transformed : forall m c t, c_sample (c_transformed m c) t =p= aff_apply m (c_sample c t).
Proof. exact cubic_transformed. Qed.

Theorem C10_cubic_xy : forall c t, c_sample c t =p= (c_x c t, c_y c t).
Proof. exact cubic_xy. Qed.

Theorem C10_cubic_derivative : forall c t h, psub (c_sample c (t + h)) (c_sample c t) =p= padd (padd (pscale (c_derivative c t) h) (pscale (c_second c t) (h * h))) (pscale (c_third c) (h * h * h)).
Proof. exact cubic_derivative. Qed.

Theorem C10_cubic_endpoints : forall c, c_sample c 0 =p= c_from c /\ c_sample c 1 =p= c_to c.
Proof. exact cubic_endpoints. Qed.

Theorem C10_cubic_to_quadratic_of_elevated : forall q t, q_sample (c_to_quadratic (q_to_cubic q)) t =p= q_sample q t.
Proof. exact cubic_to_quadratic_of_elevated. Qed.

(* non-vacuity / sanity: the model evaluates a concrete curve as expected *)
Example C10_sample_example :
  q_sample (mkQuad (0,0) (1,2) (2,0)) (1#2) =p= (1, 1).
Proof. vm_compute. split; reflexivity. Qed.


(* ---- the tie to the source by translation: Gen/Functions.v is regenerated on every run from the bodies of
   LineSegment / QuadraticBezierSegment / CubicBezierSegment::{sample, x, y, derivative, dx, dy, flip, split_range,
   split, before_split, after_split, to_cubic, to_quadratic, …} in /repo/crates/geom/src (tools/rs2coq.py); the
   translations ARE the models the theorems above are about, and the split / flip theorems hold of them *)
Theorem C10_line_is_source : forall s o t t0 t1,
  src_line_sample s t = l_sample s t /\ src_line_x s t = l_x s t /\ src_line_y s t = l_y s t /\
  src_line_flip s = l_flip s /\ src_line_split_range s t0 t1 = l_split_range s t0 t1 /\
  src_line_split s t = l_split s t /\ src_line_before_split s t = l_before_split s t /\
  src_line_after_split s t = l_after_split s t /\ src_line_to_vector s = l_derivative s /\
  src_line_intersection_t s o = seg_intersection_t s o.
Proof. exact src_line_is_model. Qed.

Theorem C10_quad_is_source : forall c t t0 t1,
  src_quad_sample c t = q_sample c t /\ src_quad_x c t = q_x c t /\ src_quad_y c t = q_y c t /\
  src_quad_derivative c t = q_derivative c t /\
  src_quad_dx c t = px (q_derivative c t) /\ src_quad_dy c t = py (q_derivative c t) /\
  src_quad_flip c = q_flip c /\ src_quad_split_range c t0 t1 = q_split_range c t0 t1 /\
  src_quad_split c t = q_split c t /\ src_quad_before_split c t = q_before_split c t /\
  src_quad_after_split c t = q_after_split c t.
Proof. exact src_quad_is_model. Qed.

Theorem C10_cubic_is_source : forall c t t0 t1,
  src_cubic_sample c t = c_sample c t /\ src_cubic_x c t = c_x c t /\ src_cubic_y c t = c_y c t /\
  src_cubic_derivative c t = c_derivative c t /\
  src_cubic_dx c t = px (c_derivative c t) /\ src_cubic_dy c t = py (c_derivative c t) /\
  src_cubic_flip c = c_flip c /\ src_cubic_split_range c t0 t1 = c_split_range c t0 t1 /\
  src_cubic_split c t = c_split c t /\ src_cubic_before_split c t = c_before_split c t /\
  src_cubic_after_split c t = c_after_split c t.
Proof. exact src_cubic_is_model. Qed.

Theorem C10_conversions_are_source : forall q c,
  src_quad_to_cubic q = q_to_cubic q /\ src_cubic_to_quadratic c = c_to_quadratic c.
Proof. intros q c. split; [exact (src_quad_to_cubic_is_model q)|exact (src_cubic_to_quadratic_is_model c)]. Qed.

Theorem C10_src_quad_split_retraces : forall c t u,
  src_quad_sample (fst (src_quad_split c t)) u =p= src_quad_sample c (t * u) /\
  src_quad_sample (snd (src_quad_split c t)) u =p= src_quad_sample c (t + (1 - t) * u) /\
  src_quad_sample (src_quad_before_split c t) u =p= src_quad_sample c (t * u) /\
  src_quad_sample (src_quad_after_split c t) u =p= src_quad_sample c (t + (1 - t) * u).
Proof. exact src_quad_split_retraces. Qed.

Theorem C10_src_quad_split_range_flip_retrace : forall c a b u,
  src_quad_sample (src_quad_split_range c a b) u =p= src_quad_sample c (a + (b - a) * u) /\
  src_quad_sample (src_quad_flip c) u =p= src_quad_sample c (1 - u).
Proof. exact src_quad_split_range_flip_retrace. Qed.

Theorem C10_src_cubic_split_retraces : forall c t u,
  src_cubic_sample (fst (src_cubic_split c t)) u =p= src_cubic_sample c (t * u) /\
  src_cubic_sample (snd (src_cubic_split c t)) u =p= src_cubic_sample c (t + (1 - t) * u) /\
  src_cubic_sample (src_cubic_before_split c t) u =p= src_cubic_sample c (t * u) /\
  src_cubic_sample (src_cubic_after_split c t) u =p= src_cubic_sample c (t + (1 - t) * u).
Proof. exact src_cubic_split_retraces. Qed.

Theorem C10_src_cubic_split_range_flip_retrace : forall c a b u,
  src_cubic_sample (src_cubic_split_range c a b) u =p= src_cubic_sample c (a + (b - a) * u) /\
  src_cubic_sample (src_cubic_flip c) u =p= src_cubic_sample c (1 - u).
Proof. exact src_cubic_split_range_flip_retrace. Qed.

Theorem C10_src_coordinates_are_samples : forall q c t,
  src_quad_sample q t =p= (src_quad_x q t, src_quad_y q t) /\
  src_cubic_sample c t =p= (src_cubic_x c t, src_cubic_y c t).
Proof. exact src_coordinates_are_samples. Qed.


(* LineSegment::solve_t_for_x / solve_t_for_y / solve_y_for_x / solve_x_for_y and the `baseline` of both curves, regenerated
   from line.rs / quadratic_bezier.rs / cubic_bezier.rs on every run (tools/rs2coq.py): solving inverts the regenerated
   evaluation on every non-degenerate segment and every abscissa (inside the segment or not); the degenerate branch answers 0;
   the baseline joins the curve's own end points. *)
Theorem C10_src_line_solve_inverts_evaluation : forall s v,
  (~ px (l_to s) == px (l_from s) -> src_line_x s (src_line_solve_t_for_x s v) == v) /\
  (~ py (l_to s) == py (l_from s) -> src_line_y s (src_line_solve_t_for_y s v) == v) /\
  (px (l_to s) == px (l_from s) -> src_line_solve_t_for_x s v = 0) /\
  (py (l_to s) == py (l_from s) -> src_line_solve_t_for_y s v = 0).
Proof.
  intros s v. split; [exact (src_line_solve_t_for_x_inverts s v)|]. split; [exact (src_line_solve_t_for_y_inverts s v)|].
  exact (src_line_solve_t_degenerate s v).
Qed.

Theorem C10_src_line_solve_other_coordinate_on_line : forall s v,
  (~ px (l_to s) == px (l_from s) ->
   (v - px (l_from s)) * (py (l_to s) - py (l_from s)) == (src_line_solve_y_for_x s v - py (l_from s)) * (px (l_to s) - px (l_from s))) /\
  (~ py (l_to s) == py (l_from s) ->
   (src_line_solve_x_for_y s v - px (l_from s)) * (py (l_to s) - py (l_from s)) == (v - py (l_from s)) * (px (l_to s) - px (l_from s))).
Proof. intros s v. split; [exact (src_line_solve_y_for_x_on_line s v)|exact (src_line_solve_x_for_y_on_line s v)]. Qed.

Theorem C10_src_baselines_join_the_ends : forall (q : quad) (c : cubic),
  src_line_sample (src_quad_baseline q) 0 =p= src_quad_sample q 0 /\
  src_line_sample (src_quad_baseline q) 1 =p= src_quad_sample q 1 /\
  src_line_sample (src_cubic_baseline c) 0 =p= src_cubic_sample c 0 /\
  src_line_sample (src_cubic_baseline c) 1 =p= src_cubic_sample c 1.
Proof. exact src_baselines_join_the_ends. Qed.

Print Assumptions C10_line_split_l.
Print Assumptions C10_line_split_r.
Print Assumptions C10_line_before_split.
Print Assumptions C10_line_after_split.
Print Assumptions C10_line_split_range.
Print Assumptions C10_line_flip.
Print Assumptions C10_line_transformed.
Print Assumptions C10_line_xy.
Print Assumptions C10_line_derivative.
Print Assumptions C10_quad_split_l.
Print Assumptions C10_quad_split_r.
Print Assumptions C10_quad_before_split.
Print Assumptions C10_quad_after_split.
Print Assumptions C10_quad_split_range.
Print Assumptions C10_quad_flip.
Print Assumptions C10_quad_transformed.
Print Assumptions C10_quad_xy.
Print Assumptions C10_quad_to_cubic.
Print Assumptions C10_quad_derivative.
Print Assumptions C10_quad_endpoints.
Print Assumptions C10_cubic_split_l.
Print Assumptions C10_cubic_split_r.
Print Assumptions C10_cubic_before_split.
Print Assumptions C10_cubic_after_split.
Print Assumptions C10_cubic_split_range.
Print Assumptions C10_cubic_flip.
Print Assumptions C10_cubic_transformed.
Print Assumptions C10_cubic_xy.
Print Assumptions C10_cubic_derivative.
Print Assumptions C10_cubic_endpoints.
Print Assumptions C10_cubic_to_quadratic_of_elevated.
Print Assumptions C10_line_is_source.
Print Assumptions C10_quad_is_source.
Print Assumptions C10_cubic_is_source.
Print Assumptions C10_conversions_are_source.
Print Assumptions C10_src_quad_split_retraces.
Print Assumptions C10_src_quad_split_range_flip_retrace.
Print Assumptions C10_src_cubic_split_retraces.
Print Assumptions C10_src_cubic_split_range_flip_retrace.
Print Assumptions C10_src_coordinates_are_samples.
Print Assumptions C10_src_line_solve_inverts_evaluation.
Print Assumptions C10_src_line_solve_other_coordinate_on_line.
Print Assumptions C10_src_baselines_join_the_ends.
