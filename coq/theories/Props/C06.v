(* C06 - stroke triangles cover the band around the path and nothing far from it.
   The decision procedures of Checker/StrokeCover.v mean what they say:
     - an empty answer of check_line_sub settles ALL the (infinitely many) points of a horizontal line:
       every point of the line inside a must polygon is covered by a triangle;
     - an accepted triangle lies, with ALL its points, within the allowed distance of the path.
   Which polygons must be covered and which distance is allowed is derived from the input polyline by the
   harness (c06.rs) as the property states them; that the stroker passes for every input is validated
   per run, on the lines scanned - and for small strokes at EVERY point of the plane (check_plane_sub) - not
   proved.  Statements only; proofs in Proofs/C06_Cover.v and Proofs/C06_CoverPlane.v. *)
From Coq Require Import QArith.
From LV Require Import Base.Prelude Model.Bezier Model.Winding Checker.Region Checker.StrokeCover Checker.Slab Checker.CoverPlane
  Proofs.C06_Cover Proofs.C06_CoverPlane.
Open Scope Q_scope.

Theorem C06_simple_between_strict : forall lo hi, lo < hi ->
  lo < simple_between lo hi /\ simple_between lo hi < hi.
Proof. exact simple_between_strict. Qed.

(* one line, all of its points *)
Theorem C06_line_sub_sound : forall ps ts y,
  check_line_sub ps ts y = [] ->
  forall x, in_polygons ps (x, y) = true -> covers ts (x, y) = true.
Proof. exact line_sub_sound. Qed.

(* the lines scanned for a case *)
Theorem C06_check_sub_sound : forall ys ps ts,
  check_sub_on ys ps ts = [] ->
  forall y, In y ys -> forall x, in_polygons ps (x, y) = true -> covers ts (x, y) = true.
Proof. exact check_sub_sound. Qed.
Theorem C06_thin_subset : forall budget l y, In y (thin budget l) -> In y l.
Proof. exact thin_subset. Qed.

(* outer bound: all the points of an accepted triangle (convex combinations of its vertices) are within the
   allowed distance of one segment of the path *)
Theorem C06_tri_within_sound : forall r2 segs t,
  tri_within r2 segs t = true ->
  exists s, In s segs /\
    forall u v, 0 <= u -> 0 <= v -> u + v <= 1 ->
      dist2 (tri_point t u v) (fst s) (snd s) <= r2.
Proof. exact tri_within_sound. Qed.
Theorem C06_all_within_sound : forall r2 segs ts,
  all_within r2 segs ts = [] -> forall t, In t ts -> tri_within r2 segs t = true.
Proof. exact all_within_sound. Qed.

(* non-vacuity: a 4 x 1 rectangle covered by two triangles is accepted on the line y = 1/2; with the second
   triangle missing, the uncovered part is reported *)
Example C06_line_example :
  let must := [[((0, 0), (4, 0)); ((4, 0), (4, 1)); ((4, 1), (0, 1)); ((0, 1), (0, 0))]] in
  let t1 := ((0, 0), (4, 0), (4, 1)) in
  let t2 := ((0, 0), (4, 1), (0, 1)) in
  check_line_sub must [t1; t2] (1#2) = [] /\ check_line_sub must [t1] (1#2) <> []
  /\ in_polygons must (1, 1#2) = true.
Proof. exact line_example. Qed.
Example C06_within_example :
  tri_within 1 [((0, 0), (4, 0))] ((0, 1#2), (4, 1#2), (4, -(1#2))) = true
  /\ tri_within 1 [((0, 0), (4, 0))] ((0, 1#2), (4, 1#2), (4, 2)) = false.
Proof. exact within_example. Qed.


(* ---- every point of the plane (slab lift of the cover check, Checker/CoverPlane.v) *)
Theorem C06_slab_sub_sound : forall ps ts y0 y1,
  check_slab_sub ps ts y0 y1 = true ->
  forall x y, y0 < y -> y < y1 -> in_polygons ps (x, y) = true -> covers ts (x, y) = true.
Proof. exact slab_sub_sound. Qed.

Theorem C06_plane_sub_sound : forall ps ts ys,
  check_plane_sub ps ts ys = true ->
  forall p, in_polygons ps p = true -> covers ts p = true.
Proof. exact plane_sub_sound. Qed.

Example C06_plane_example : check_plane_sub [unit_square_edges] unit_square_tris [0; 1] = true.
Proof. exact plane_sub_example. Qed.

Print Assumptions C06_simple_between_strict.
Print Assumptions C06_line_sub_sound.
Print Assumptions C06_check_sub_sound.
Print Assumptions C06_thin_subset.
Print Assumptions C06_tri_within_sound.
Print Assumptions C06_all_within_sound.
Print Assumptions C06_slab_sub_sound.
Print Assumptions C06_plane_sub_sound.
