(* C06, whole plane: every point of every "must" polygon is covered by a triangle - decided for ALL the points of
   the plane by the slab lift of Checker/Slab.v, instantiated with the verdict [sub_ok] of Checker/StrokeCover.v.

   The generic slab check is used with the must polygons' edges as "path" and the tolerance -1: no point is within a
   negative squared distance of an edge, so the band escape of the slab check ([cell_in_band]) is never taken and the
   verdict has to hold in every cell. *)
From Coq Require Import QArith Qminmax.
From LV Require Import Base.Prelude Model.Bezier Model.Winding Checker.Region Checker.StrokeCover Checker.Slab.
Open Scope Q_scope.

Definition check_slab_sub (ps : list polygon) (ts : list triangle) (y0 y1 : Q) : bool :=
  check_slab_gen (sub_ok ps ts) (-(1)) (concat ps) ts y0 y1.

Definition check_plane_sub (ps : list polygon) (ts : list triangle) (ys : list Q) : bool :=
  sorted_strict ys
  && covers_vertices ys (all_edges (concat ps) ts)
  && forallb (fun y => match check_line_sub ps ts y with [] => true | _ => false end) ys
  && slabs_ok (check_slab_sub ps ts) ys.
