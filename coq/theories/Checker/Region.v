(* The region comparator: specification of "the triangles cover exactly the fill-rule interior,
   up to the tolerance band of the outline" and an exact, executable decision procedure for all
   the (infinitely many) points of a horizontal line.  Coordinates are exact rationals (the f32
   values of the input path and of the output vertices).

   Specification (short, meant to be read):
     wn   p edges   signed crossing number of the leftward ray (Model/Winding.v, anchored by C18)
     inside rule P p  := is_in rule (wn p (edges of P))           (sub-paths implicitly closed)
     covers T p     := some triangle of T contains p, where "contains" is the same crossing number
                       applied to the triangle's own three edges (one predicate serves both sides, so
                       boundary points are attributed consistently)
     far tol P p    := every edge of P is at squared distance > tol^2 from p
     fill_ok_at     := far tol P p -> (covers T p <-> inside rule P p)            *)
From Coq Require Import QArith Qminmax Qabs.
From LV Require Import Base.Prelude Model.Bezier Model.Winding.
Open Scope Q_scope.

Definition edge := (qpt * qpt)%type.
Definition triangle := (qpt * qpt * qpt)%type.

Definition tri_edges (t : triangle) : list edge :=
  let '(a, b, c) := t in [(a, b); (b, c); (c, a)].
Definition tri_contains (t : triangle) (p : qpt) : bool := negb (wn p (tri_edges t) =? 0)%Z.
Definition covers (ts : list triangle) (p : qpt) : bool := existsb (fun t => tri_contains t p) ts.
Definition cover_count (ts : list triangle) (p : qpt) : nat := length (filter (fun t => tri_contains t p) ts).
Definition inside (r : fill_rule) (es : list edge) (p : qpt) : bool := is_in r (wn p es).

(* squared distance from p to the segment [a, b] *)
Definition dot (u v : qpt) : Q := px u * px v + py u * py v.
Definition norm2 (u : qpt) : Q := dot u u.
Definition dist2 (p a b : qpt) : Q :=
  let ab := psub b a in
  let ap := psub p a in
  let l2 := norm2 ab in
  if Qeq_bool l2 0 then norm2 ap
  else
    let d := dot ap ab in
    if Qle_bool d 0 then norm2 ap
    else if Qle_bool l2 d then norm2 (psub p b)
    else norm2 ap - d * d / l2.

Definition near_edge (tol2 : Q) (p : qpt) (e : edge) : bool := Qle_bool (dist2 p (fst e) (snd e)) tol2.
Definition far (tol2 : Q) (es : list edge) (p : qpt) : Prop :=
  forall e, In e es -> tol2 < dist2 p (fst e) (snd e).
Definition farb (tol2 : Q) (es : list edge) (p : qpt) : bool :=
  forallb (fun e => negb (near_edge tol2 p e)) es.

Definition fill_ok_at (r : fill_rule) (tol2 : Q) (es : list edge) (ts : list triangle) (p : qpt) : Prop :=
  far tol2 es p -> covers ts p = inside r es p.

(* ------------------------------------------------------------------ one horizontal line
   Breakpoints: the abscissae where an edge of the path or of a triangle crosses the line
   (half-open rule of [edge_wn]).  Both sides of the property are constant on every interval
   (x_k, x_k+1] between consecutive breakpoints, so evaluating at the right end of each interval and
   at one point beyond the last breakpoint decides the whole line. *)
Definition crosses_line (y : Q) (e : edge) : bool :=
  (Qle_bool (py (fst e)) y && Qltb y (py (snd e))) || (Qle_bool (py (snd e)) y && Qltb y (py (fst e))).

Definition breakpoints (y : Q) (es : list edge) (ts : list triangle) : list Q :=
  map (fun e => x_at (fst e) (snd e) y)
      (filter (crosses_line y) (es ++ flat_map tri_edges ts)).

Fixpoint insert_q (x : Q) (l : list Q) : list Q :=
  match l with
  | [] => [x]
  | y :: r => if Qle_bool x y then x :: l else y :: insert_q x r
  end.
Definition sort_q (l : list Q) : list Q := fold_right insert_q [] l.

Definition agree (r : fill_rule) (es : list edge) (ts : list triangle) (p : qpt) : bool :=
  Bool.eqb (covers ts p) (inside r es p).

(* a disagreeing interval [lo, hi] x {y} is harmless if both ends are within tol of one and the same
   path edge (the set of points within tol of a segment is convex) *)
Definition interval_in_band (tol2 : Q) (es : list edge) (y lo hi : Q) : bool :=
  existsb (fun e => near_edge tol2 (lo, y) e && near_edge tol2 (hi, y) e) es.

(* scan the sorted breakpoints; [lo] = previous breakpoint (None = -infinity).
   Result: list of undecided / bad intervals as (lo, hi) with hi the representative; empty = line ok *)
Fixpoint scan (r : fill_rule) (tol2 : Q) (es : list edge) (ts : list triangle) (y : Q)
         (lo : option Q) (xs : list Q) : list (option Q * Q) :=
  match xs with
  | [] => []
  | x :: rest =>
      (if agree r es ts (x, y) then []
       else match lo with
            | Some l => if interval_in_band tol2 es y l x then [] else [(lo, x)]
            | None => [(lo, x)]               (* unbounded to the left: cannot be in a band *)
            end)
      ++ scan r tol2 es ts y (Some x) rest
  end.

Definition check_line (r : fill_rule) (tol2 : Q) (es : list edge) (ts : list triangle) (y : Q)
  : list (option Q * Q) :=
  let xs := sort_q (breakpoints y es ts) in
  let beyond := match xs with [] => 0 | _ => last xs 0 + 1 end in
  scan r tol2 es ts y None xs
  ++ (if agree r es ts (beyond, y) then [] else [(Some (last xs 0), beyond)]).

(* witness search for a reported interval: a point of it that is far from every edge and on which
   the two sides disagree is a genuine violation *)
Definition witness_in (r : fill_rule) (tol2 : Q) (es : list edge) (ts : list triangle) (y : Q)
           (iv : option Q * Q) : option qpt :=
  let hi := snd iv in
  let cands := match fst iv with
               | Some lo => [hi; (lo + hi) / 2; (lo + 3 * hi) / 4; (3 * lo + hi) / 4]
               | None => [hi; hi - 1]
               end in
  find (fun p => farb tol2 es p && negb (agree r es ts p)) (map (fun x => (x, y)) cands).

(* the ys worth scanning: every vertex ordinate, and the middle of consecutive ones *)
Definition vertex_ys (es : list edge) (ts : list triangle) : list Q :=
  sort_q (flat_map (fun e => [py (fst e); py (snd e)]) (es ++ flat_map tri_edges ts)).
Fixpoint with_mids (l : list Q) : list Q :=
  match l with
  | a :: ((b :: _) as r) => if Qeq_bool a b then with_mids r else a :: (a + b) / 2 :: with_mids r
  | _ => l
  end.
Definition scan_ys (es : list edge) (ts : list triangle) : list Q := with_mids (vertex_ys es ts).

(* whole check: per line, the intervals that could not be accepted, with a witness when one exists *)
Definition check_region (r : fill_rule) (tol2 : Q) (es : list edge) (ts : list triangle)
  : list (Q * (option Q * Q) * option qpt) :=
  flat_map (fun y => map (fun iv => (y, iv, witness_in r tol2 es ts y iv)) (check_line r tol2 es ts y))
           (scan_ys es ts).
