(* The curve-deviation checker: an exact, executable decision of "EVERY point of a Bezier curve
   is within the tolerance of the polyline" (infinitely many points), by the convex-hull property
   and adaptive halving.  Coordinates, parameters and the squared tolerance are exact rationals
   (the f32 / f64 values handed to and returned by lyon's flattening).

   A piece of the curve (the sub-range [t0, t1], control points computed exactly by the blossom
   formulas of Model/Bezier.v, anchored by C10) is accepted when all its control points are within
   the tolerance of ONE segment of the polyline: the set of points within the tolerance of a
   segment is convex (C01_band_convex) and the piece lies in the hull of its control points.
   Otherwise the piece is halved; a midpoint farther than the tolerance from EVERY segment is a
   witness (a point of the curve, with its parameter, that violates the bound).  Exhausted fuel
   is the third verdict (undecided), never a pass. *)
From Coq Require Import QArith Qminmax.
From LV Require Import Base.Prelude Model.Bezier Checker.Region.
Open Scope Q_scope.

Inductive verdict := VOk | VFar (t : Q) | VUnknown.

Definition quad_near (tol2 : Q) (c : quad) (e : edge) : bool :=
  near_edge tol2 (q_from c) e && near_edge tol2 (q_ctrl c) e && near_edge tol2 (q_to c) e.
Definition cubic_near (tol2 : Q) (c : cubic) (e : edge) : bool :=
  near_edge tol2 (c_from c) e && near_edge tol2 (c_ctrl1 c) e
  && near_edge tol2 (c_ctrl2 c) e && near_edge tol2 (c_to c) e.

(* some segment of the polyline is within the tolerance of p *)
Definition near_poly (tol2 : Q) (segs : list edge) (p : qpt) : Prop :=
  exists e, In e segs /\ dist2 p (fst e) (snd e) <= tol2.

(* coordinates are kept in lowest terms (the blossom formulas multiply denominators) *)
Definition qpt_red (p : qpt) : qpt := (Qred (px p), Qred (py p)).
Definition quad_red (c : quad) : quad := mkQuad (qpt_red (q_from c)) (qpt_red (q_ctrl c)) (qpt_red (q_to c)).
Definition cubic_red (c : cubic) : cubic :=
  mkCubic (qpt_red (c_from c)) (qpt_red (c_ctrl1 c)) (qpt_red (c_ctrl2 c)) (qpt_red (c_to c)).

Fixpoint qcheck (fuel : nat) (tol2 : Q) (c : quad) (t0 t1 : Q) (segs : list edge) : verdict :=
  if existsb (quad_near tol2 (quad_red (q_split_range c t0 t1))) segs then VOk
  else match fuel with
       | O => VUnknown
       | S f =>
           let tm := Qred ((t0 + t1) / 2) in
           if farb tol2 segs (qpt_red (q_sample c tm)) then VFar tm
           else match qcheck f tol2 c t0 tm segs with
                | VOk => qcheck f tol2 c tm t1 segs
                | v => v
                end
       end.

Fixpoint ccheck (fuel : nat) (tol2 : Q) (c : cubic) (t0 t1 : Q) (segs : list edge) : verdict :=
  if existsb (cubic_near tol2 (cubic_red (c_split_range c t0 t1))) segs then VOk
  else match fuel with
       | O => VUnknown
       | S f =>
           let tm := Qred ((t0 + t1) / 2) in
           if farb tol2 segs (qpt_red (c_sample c tm)) then VFar tm
           else match ccheck f tol2 c t0 tm segs with
                | VOk => ccheck f tol2 c tm t1 segs
                | v => v
                end
       end.

(* ------------------------------------------------------------------ a whole flattening
   [ts] = the parameters reported by the flattening (ending with 1), [pts] = its vertices (the
   curve's start point first).  The curve is checked range by range, the ranges being
   0..ts[0], ts[0]..ts[1], ...; [ranges_ok] makes sure they are ordered and end at 1, so that they
   cover [0, 1].  Each range is checked against ALL segments of the polyline. *)
Fixpoint segs_of (pts : list qpt) : list edge :=
  match pts with
  | a :: ((b :: _) as r) => (a, b) :: segs_of r
  | _ => []
  end.

Fixpoint ranges_from (t0 : Q) (ts : list Q) : list (Q * Q) :=
  match ts with
  | [] => []
  | t :: r => (t0, t) :: ranges_from t r
  end.

Fixpoint ranges_ok (t0 : Q) (ts : list Q) : bool :=
  match ts with
  | [] => Qeq_bool t0 1
  | t :: r => Qle_bool t0 t && ranges_ok t r
  end.

(* verdicts other than VOk, with the index of the range *)
Fixpoint collect (i : Z) (vs : list verdict) : list (Z * verdict) :=
  match vs with
  | [] => []
  | VOk :: r => collect (i + 1)%Z r
  | v :: r => (i, v) :: collect (i + 1)%Z r
  end.

(* range number i is first checked against the segments i-1, i, i+1 only (its own chord and the
   neighbours: almost always enough, and 3 instead of n distance computations per control point);
   when that does not succeed the range is checked against all the segments, so that a witness is
   far from the WHOLE polyline *)
Definition window (i : nat) (segs : list edge) : list edge := firstn 3 (skipn (i - 1) segs).

Fixpoint number {A} (i : nat) (l : list A) : list (nat * A) :=
  match l with
  | [] => []
  | x :: r => (i, x) :: number (S i) r
  end.

Definition qcheck_w (fuel : nat) (tol2 : Q) (c : quad) (segs : list edge) (ir : nat * (Q * Q)) : verdict :=
  let '(i, (t0, t1)) := ir in
  match qcheck fuel tol2 c t0 t1 (window i segs) with
  | VOk => VOk
  | _ => qcheck fuel tol2 c t0 t1 segs
  end.
Definition ccheck_w (fuel : nat) (tol2 : Q) (c : cubic) (segs : list edge) (ir : nat * (Q * Q)) : verdict :=
  let '(i, (t0, t1)) := ir in
  match ccheck fuel tol2 c t0 t1 (window i segs) with
  | VOk => VOk
  | _ => ccheck fuel tol2 c t0 t1 segs
  end.

Definition quad_flat_check (fuel : nat) (tol2 : Q) (c : quad) (ts : list Q) (pts : list qpt)
  : option (list (Z * verdict)) :=
  if ranges_ok 0 ts then
    Some (collect 0 (map (qcheck_w fuel tol2 c (segs_of pts)) (number 0 (ranges_from 0 ts))))
  else None.

Definition cubic_flat_check (fuel : nat) (tol2 : Q) (c : cubic) (ts : list Q) (pts : list qpt)
  : option (list (Z * verdict)) :=
  if ranges_ok 0 ts then
    Some (collect 0 (map (ccheck_w fuel tol2 c (segs_of pts)) (number 0 (ranges_from 0 ts))))
  else None.

(* the other direction: every vertex of the polyline is within the tolerance of the curve - vertex
   i (i >= 1) is compared with the curve point of its own parameter *)
Fixpoint quad_vertices_far (tol2 : Q) (c : quad) (ts : list Q) (pts : list qpt) (i : Z) : list Z :=
  match ts, pts with
  | t :: tr, p :: pr =>
      (if Qle_bool (norm2 (psub p (q_sample c t))) tol2 then [] else [i])
      ++ quad_vertices_far tol2 c tr pr (i + 1)%Z
  | _, _ => []
  end.
Fixpoint cubic_vertices_far (tol2 : Q) (c : cubic) (ts : list Q) (pts : list qpt) (i : Z) : list Z :=
  match ts, pts with
  | t :: tr, p :: pr =>
      (if Qle_bool (norm2 (psub p (c_sample c t))) tol2 then [] else [i])
      ++ cubic_vertices_far tol2 c tr pr (i + 1)%Z
  | _, _ => []
  end.
