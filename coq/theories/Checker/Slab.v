(* The slab lift of the region comparator: from "all the points of the scanned lines" to ALL THE POINTS OF THE
   PLANE.

   Between two consecutive ordinates y0 < y1 with no vertex (of the path or of a triangle) strictly inside, every edge
   either spans the whole closed slab or does not meet the open slab; if moreover no two spanning edges cross inside
   (their order at y0 and at y1 is weakly the same), the abscissae x_e(y) of the spanning edges keep their order on the
   whole open slab.  Both sides of the property at a point (x, y) - [covers] and [inside] - only depend on which spanning
   edges satisfy x_e(y) < x (definition of [edge_wn]), i.e. on the cell of (x, y) between consecutive edges.  So what is
   true at one representative of a cell on the middle line is true in the whole cell; a cell where the two sides
   disagree is harmless when its four corners are within the tolerance of one and the same path edge (the band of an edge
   is convex and the cell is in the hull of its corners).

   Together with the line check at every event ordinate ([check_line], proved sound in C01) and the trivial region above
   and below all vertices this decides [fill_ok_at] at every point of the plane. *)
From Coq Require Import QArith Qminmax.
From LV Require Import Base.Prelude Model.Bezier Model.Winding Checker.Region.
Open Scope Q_scope.

Definition all_edges (es : list edge) (ts : list triangle) : list edge := es ++ flat_map tri_edges ts.

Definition in_open (y0 y1 v : Q) : bool := Qltb y0 v && Qltb v y1.

(* no end point of any edge strictly inside the slab *)
Definition no_vertex_inside (y0 y1 : Q) (l : list edge) : bool :=
  forallb (fun e => negb (in_open y0 y1 (py (fst e))) && negb (in_open y0 y1 (py (snd e)))) l.

(* the closed slab lies within the (non-degenerate) vertical extent of the edge *)
Definition spans_slab (y0 y1 : Q) (e : edge) : bool :=
  (Qle_bool (py (fst e)) y0 && Qle_bool y1 (py (snd e))) || (Qle_bool (py (snd e)) y0 && Qle_bool y1 (py (fst e))).

Definition ex (e : edge) (y : Q) : Q := x_at (fst e) (snd e) y.

(* the order of two spanning edges does not change strictly between y0 and y1 *)
Definition same_order (y0 y1 : Q) (e f : edge) : bool :=
  Qle_bool 0 ((ex e y0 - ex f y0) * (ex e y1 - ex f y1)).

Definition order_consistent (y0 y1 : Q) (s : list edge) : bool :=
  forallb (fun e => forallb (same_order y0 y1 e) s) s.

(* insertion sort of the spanning edges by their abscissa on the middle line *)
Fixpoint insert_e (ym : Q) (e : edge) (l : list edge) : list edge :=
  match l with
  | [] => [e]
  | f :: r => if Qle_bool (ex e ym) (ex f ym) then e :: l else f :: insert_e ym e r
  end.
Definition sort_e (ym : Q) (l : list edge) : list edge := fold_right (insert_e ym) [] l.

(* the cell between e_lo and e_hi over the slab is within the tolerance of one path edge *)
Definition cell_in_band (tol2 : Q) (es : list edge) (y0 y1 : Q) (lo hi : edge) : bool :=
  existsb (fun e => near_edge tol2 (ex lo y0, y0) e && near_edge tol2 (ex hi y0, y0) e
                    && near_edge tol2 (ex lo y1, y1) e && near_edge tol2 (ex hi y1, y1) e) es.

(* [good p] is the pointwise verdict at a representative: agreement of the two sides (coverage), or "covered at most
   once" (overlap); both only depend on the comparisons x_e(y) < x *)
Section Cells.
Variable good : qpt -> bool.
Variable tol2 : Q.
Variable es : list edge.
Variables y0 y1 : Q.

(* consecutive sorted spanning edges: the cell (x_lo(y), x_hi(y)] is represented by (x_hi(ym), ym) *)
Fixpoint scan_cells (ym : Q) (lo : edge) (rest : list edge) : bool :=
  match rest with
  | [] => true
  | hi :: r =>
      (Qeq_bool (ex lo ym) (ex hi ym)              (* same abscissa: same line on the slab, empty cell *)
       || good (ex hi ym, ym)
       || cell_in_band tol2 es y0 y1 lo hi)
      && scan_cells ym hi r
  end.

Definition check_cells (s : list edge) : bool :=
  let ym := (y0 + y1) / 2 in
  match sort_e ym s with
  | [] => good (0, ym)
  | first :: r =>
      good (ex first ym, ym)                        (* the unbounded cell on the left: x <= x_first(y) *)
      && scan_cells ym first r
      && good (ex (last r first) ym + 1, ym)        (* the unbounded cell on the right *)
  end.
End Cells.

Definition check_slab_gen (good : qpt -> bool) (tol2 : Q) (es : list edge) (ts : list triangle) (y0 y1 : Q) : bool :=
  let l := all_edges es ts in
  let s := filter (spans_slab y0 y1) l in
  Qltb y0 y1 && no_vertex_inside y0 y1 l && order_consistent y0 y1 s && check_cells good tol2 es y0 y1 s.

(* coverage: the triangles cover the cell iff the cell is inside the path *)
Definition check_slab (r : fill_rule) (tol2 : Q) (es : list edge) (ts : list triangle) (y0 y1 : Q) : bool :=
  check_slab_gen (agree r es ts) tol2 es ts y0 y1.

(* overlap: no point of the cell is covered by two triangles *)
Definition at_most_once (ts : list triangle) (p : qpt) : bool := Nat.leb (cover_count ts p) 1.
Definition check_slab_overlap (tol2 : Q) (es : list edge) (ts : list triangle) (y0 y1 : Q) : bool :=
  check_slab_gen (at_most_once ts) tol2 es ts y0 y1.

(* ------------------------------------------------------------------ the whole plane
   [ys]: event ordinates, sorted increasingly (checked), containing every vertex ordinate (checked); any further
   ordinates (e.g. where two edges cross) may be added freely - they only make slabs thinner. *)
Fixpoint sorted_strict (l : list Q) : bool :=
  match l with
  | a :: ((b :: _) as r) => Qltb a b && sorted_strict r
  | _ => true
  end.

Definition covers_vertices (ys : list Q) (l : list edge) : bool :=
  forallb (fun e => existsb (Qeq_bool (py (fst e))) ys && existsb (Qeq_bool (py (snd e))) ys) l.

Fixpoint slabs_ok (slab : Q -> Q -> bool) (ys : list Q) : bool :=
  match ys with
  | a :: ((b :: _) as r) => slab a b && slabs_ok slab r
  | _ => true
  end.

Definition check_plane (r : fill_rule) (tol2 : Q) (es : list edge) (ts : list triangle) (ys : list Q) : bool :=
  sorted_strict ys
  && covers_vertices ys (all_edges es ts)
  && forallb (fun y => match check_line r tol2 es ts y with [] => true | _ => false end) ys
  && slabs_ok (check_slab r tol2 es ts) ys.

(* exact ordinate where two edges cross strictly inside their common vertical extent (None: no such crossing).
   Only used to propose event ordinates: the theorems hold for any list of ordinates. *)
Definition crossing_y (e f : edge) : option Q :=
  let '(a, b) := e in let '(c, d) := f in
  let lo := Qmax (Qmin (py a) (py b)) (Qmin (py c) (py d)) in
  let hi := Qmin (Qmax (py a) (py b)) (Qmax (py c) (py d)) in
  if Qle_bool hi lo then None
  else
    let rx := px b - px a in let ry := py b - py a in
    let sx := px d - px c in let sy := py d - py c in
    let den := rx * sy - ry * sx in
    if Qeq_bool den 0 then None
    else
      let t := ((px c - px a) * sy - (py c - py a) * sx) / den in
      let y := Qred (py a + t * ry) in
      if Qltb lo y && Qltb y hi then Some y else None.

Definition crossing_ys (l : list edge) : list Q :=
  flat_map (fun e => flat_map (fun f => match crossing_y e f with Some y => [y] | None => [] end) l) l.

(* the event ordinates used by the runner: vertex ordinates and crossing ordinates, sorted, duplicates removed *)
Fixpoint dedup_sorted (l : list Q) : list Q :=
  match l with
  | a :: ((b :: _) as r) => if Qeq_bool a b then dedup_sorted r else a :: dedup_sorted r
  | _ => l
  end.
Definition event_ys (es : list edge) (ts : list triangle) : list Q :=
  let l := all_edges es ts in
  let vs := dedup_sorted (sort_q (flat_map (fun e => [Qred (py (fst e)); Qred (py (snd e))]) l)) in
  dedup_sorted (sort_q (vs ++ crossing_ys l)).
