(* C06 - stroke triangles cover the band around the path and nothing far from it.
   Exact, executable decision procedures over rationals:
   (inner)  every point of a horizontal line that lies in one of the "must" polygons (the rectangles of
            the segments, shrunk by the tolerance; for round joins and caps also polygons inscribed in the
            discs around the path points) is covered by a triangle - decided for ALL the points of the line
            at once, by evaluating at the breakpoints of the line (Checker/Region.v machinery);
   (outer)  every triangle lies within the allowed distance of the path - decided per triangle by finding
            one segment of the path (or one of its points) all three vertices are close to, and lifted to
            every point of the triangle by convexity of the distance to a segment. *)
From Coq Require Import QArith Qminmax Qabs Qround.
From LV Require Import Base.Prelude Model.Bezier Model.Winding Checker.Region.
Open Scope Q_scope.

Definition polygon := list edge.           (* closed outline of a convex "must" region *)

Definition in_polygons (ps : list polygon) (p : qpt) : bool := existsb (fun r => inside NonZero r p) ps.
Definition sub_ok (ps : list polygon) (ts : list triangle) (p : qpt) : bool :=
  implb (in_polygons ps p) (covers ts p).

(* a rational with few bits strictly between lo and hi (lo < hi): the dyadic m / 2^k with the smallest k
   (up to 64), else the midpoint.  Evaluating the two sides of the property at such points instead of at
   the breakpoints themselves keeps the numbers small. *)
Fixpoint simple_between_aux (fuel : nat) (k : Z) (lo hi : Q) : Q :=
  match fuel with
  | O => Qred ((lo + hi) / 2)
  | S f =>
      let s := inject_Z (2 ^ k) in
      let c := Qred (inject_Z (Qfloor (lo * s) + 1) / s) in
      if Qltb c hi then c else simple_between_aux f (k + 1) lo hi
  end.
Definition simple_between (lo hi : Q) : Q := simple_between_aux 64 0 lo hi.

(* both sides are constant on (lo, hi] when no breakpoint lies strictly inside: one representative per
   interval between consecutive breakpoints *)
Fixpoint scan_simple (ps : list polygon) (ts : list triangle) (y : Q) (lo : Q) (xs : list Q) : list Q :=
  match xs with
  | [] => []
  | x :: rest =>
      (if Qltb lo x
       then let r := simple_between lo x in if sub_ok ps ts (r, y) then [] else [r]
       else [])
      ++ scan_simple ps ts y x rest
  end.

(* the abscissae (representatives) at which the must region is not covered; [] = the whole line is fine *)
Definition check_line_sub (ps : list polygon) (ts : list triangle) (y : Q) : list Q :=
  let xs := sort_q (breakpoints y (concat ps) ts) in
  match xs with
  | [] => if sub_ok ps ts (0, y) then [] else [0]
  | x1 :: rest =>
      let first := inject_Z (Qfloor x1 - 1) in
      let beyond := inject_Z (Qfloor (last xs 0) + 2) in
      (if sub_ok ps ts (first, y) then [] else [first])
      ++ scan_simple ps ts y x1 rest
      ++ (if sub_ok ps ts (beyond, y) then [] else [beyond])
  end.

(* one line strictly inside every slab between consecutive distinct vertex ordinates *)
Fixpoint between_consecutive (l : list Q) : list Q :=
  match l with
  | a :: ((b :: _) as r) => (if Qltb a b then [simple_between a b] else []) ++ between_consecutive r
  | _ => []
  end.
Definition sub_ys (ps : list polygon) (ts : list triangle) : list Q :=
  between_consecutive (vertex_ys (concat ps) ts).

(* every k-th element (k >= 1), starting with the first *)
Fixpoint every_from (k i : nat) (l : list Q) : list Q :=
  match l with
  | [] => []
  | x :: r => match i with
              | O => x :: every_from k (Nat.pred k) r
              | S j => every_from k j r
              end
  end.
(* at most about [budget] of the candidate lines, evenly spread *)
Definition thin (budget : nat) (l : list Q) : list Q :=
  every_from (S (Nat.div (length l) (S budget))) 0 l.

(* the scanned lines: (y, x) of every uncovered must point found *)
Definition check_sub_on (ys : list Q) (ps : list polygon) (ts : list triangle) : list (Q * Q) :=
  flat_map (fun y => map (fun x => (y, x)) (check_line_sub ps ts y)) ys.
Definition check_sub (budget : nat) (ps : list polygon) (ts : list triangle) : list (Q * Q) :=
  check_sub_on (thin budget (sub_ys ps ts)) ps ts.

(* ------------------------------------------------------------------ outer bound *)
Definition tri_points (t : triangle) : list qpt := let '(a, b, c) := t in [a; b; c].
Definition tri_within (r2 : Q) (segs : list edge) (t : triangle) : bool :=
  existsb (fun s => forallb (fun v => near_edge r2 v s) (tri_points t)) segs.
Definition all_within (r2 : Q) (segs : list edge) (ts : list triangle) : list triangle :=
  filter (fun t => negb (tri_within r2 segs t)) ts.

(* a point of the triangle: convex combination with weights u, v, 1-u-v *)
Definition tri_point (t : triangle) (u v : Q) : qpt :=
  let '(a, b, c) := t in
  (px a + u * (px b - px a) + v * (px c - px a), py a + u * (py b - py a) + v * (py c - py a)).
