(* C06 - stroke triangles cover the band around the path and nothing far from it.
   Exact, executable decision procedures over rationals:
   (inner)  every point of a horizontal line that lies in one of the "must" polygons (the rectangles of
            the segments, shrunk by the tolerance; for round joins and caps also polygons inscribed in the
            discs around the path points) is covered by a triangle - decided for ALL the points of the line
            at once, by evaluating at the breakpoints of the line (Checker/Region.v machinery);
   (outer)  every triangle lies within the allowed distance of the path - decided per triangle by finding
            one segment of the path (or one of its points) all three vertices are close to, and lifted to
            every point of the triangle by convexity of the distance to a segment. *)
From Coq Require Import QArith Qminmax Qabs.
From LV Require Import Base.Prelude Model.Bezier Model.Winding Checker.Region.
Open Scope Q_scope.

Definition polygon := list edge.           (* closed outline of a convex "must" region *)

Definition in_polygons (ps : list polygon) (p : qpt) : bool := existsb (fun r => inside NonZero r p) ps.
Definition sub_ok (ps : list polygon) (ts : list triangle) (p : qpt) : bool :=
  implb (in_polygons ps p) (covers ts p).

Fixpoint scan_sub (ps : list polygon) (ts : list triangle) (y : Q) (xs : list Q) : list Q :=
  match xs with
  | [] => []
  | x :: rest => (if sub_ok ps ts (x, y) then [] else [x]) ++ scan_sub ps ts y rest
  end.

(* the abscissae of the line at which the must region is not covered; [] = the whole line is fine *)
Definition check_line_sub (ps : list polygon) (ts : list triangle) (y : Q) : list Q :=
  let xs := sort_q (breakpoints y (concat ps) ts) in
  let beyond := match xs with [] => 0 | _ => last xs 0 + 1 end in
  scan_sub ps ts y xs ++ (if sub_ok ps ts (beyond, y) then [] else [beyond]).

Definition sub_ys (ps : list polygon) (ts : list triangle) : list Q := scan_ys (concat ps) ts.

(* all scanned lines: (y, x) of every uncovered must point found *)
Definition check_sub (ps : list polygon) (ts : list triangle) : list (Q * Q) :=
  flat_map (fun y => map (fun x => (y, x)) (check_line_sub ps ts y)) (sub_ys ps ts).

(* ------------------------------------------------------------------ outer bound *)
Definition tri_points (t : triangle) : list qpt := let '(a, b, c) := t in [a; b; c].
Definition tri_within (r2 : Q) (segs : list edge) (t : triangle) : bool :=
  existsb (fun s => forallb (fun v => near_edge r2 v s) (tri_points t)) segs.
Definition all_within (r2 : Q) (segs : list edge) (ts : list triangle) : list triangle :=
  filter (fun t => negb (tri_within r2 segs t)) ts.

(* a point of the triangle: convex combination with weights u, v, 1-u-v *)
Definition tri_point (t : triangle) (u v : Q) : qpt :=
  let '(a, b, c) := t in
  (px a + u * (px b - px a) + v * (px c - px a), py a + u * (py b - py a) + v * (py c - py a)).
