(* C05 - what a well-formed stroke mesh is, as an executable oracle over exact rationals, and
   code-shaped models of the pure decision logic of stroke.rs.

   Oracle (per run: the flattened input path as segments, the vertices handed to the geometry
   builder with the data their accessors returned, the triangles):
     vertex_ok   position = position_on_path + normal * half_width (as f32 arithmetic, bit for bit)
                 and the position is within [allowed] of some segment of the path
     tri_ok      three distinct ids, all returned before
   Decision logic: add_edge_triangles, miter_limit_is_exceeded, and the geometry behind the reach
   factors (a stroke vertex is the intersection of two lines tangent to the disc of radius
   half_width around its point on the path). *)
From Coq Require Import QArith Qabs.
From LV Require Import Base.Prelude Base.F32 Model.Bezier Gen.Constants Checker.Region.
Open Scope Q_scope.

Definition seg := (qpt * qpt)%type.   (* = Checker.Region.edge *)
Record svert := mkSV { sv_pos : qpt; sv_on_path : qpt; sv_normal : qpt; sv_width : Q }.

(* squared distance from p to the closed segment s (Checker/Region.dist2, characterised by C01_dist2_spec) *)
Definition sdot (u v : qpt) : Q := px u * px v + py u * py v.
Definition seg_dist2 (p : qpt) (s : seg) : Q := dist2 p (fst s) (snd s).

(* StrokeVertex::position(): position_on_path + normal * half_width, in f32; line_width() = half_width * 2 *)
Definition position_f32 (v : svert) : qpt :=
  let hw := sv_width v / 2 in
  (f32_round (px (sv_on_path v) + f32_round (px (sv_normal v) * hw)),
   f32_round (py (sv_on_path v) + f32_round (py (sv_normal v) * hw))).

Definition vertex_ok (segs : list seg) (allowed2 : Q) (v : svert) : bool :=
  peqb (position_f32 v) (sv_pos v)
  && existsb (fun s => Qle_bool (seg_dist2 (sv_pos v) s) allowed2) segs.

Definition tri_ok (n : Z) (t : Z * Z * Z) : bool :=
  let '(a, b, c) := t in
  negb (a =? b)%Z && negb (b =? c)%Z && negb (a =? c)%Z
  && (0 <=? a)%Z && (a <? n)%Z && (0 <=? b)%Z && (b <? n)%Z && (0 <=? c)%Z && (c <? n)%Z.

Definition mesh_ok (segs : list seg) (allowed2 : Q) (vs : list svert) (ts : list (Z * Z * Z)) : bool :=
  forallb (vertex_ok segs allowed2) vs && forallb (tri_ok (Z.of_nat (length vs))) ts.

(* ------------------------------------------------------------------ add_edge_triangles *)
(* the four side vertices of an endpoint: positive prev / next, negative prev / next; fold flags
   positive / negative *)
Record ep_ids := mkEp { pos_prev : Z; pos_next : Z; neg_prev : Z; neg_next : Z; fold_pos : bool; fold_neg : bool }.

Definition add_edge_triangles (p0 p1 : ep_ids) : list (Z * Z * Z) :=
  let p0_neg := if fold_pos p0 then pos_prev p0 else neg_next p0 in
  let p0_pos := if fold_neg p0 then neg_prev p0 else pos_next p0 in
  let p1_neg := if fold_pos p1 then pos_next p1 else neg_prev p1 in
  let p1_pos := if fold_neg p1 then neg_next p1 else pos_prev p1 in
  if (p0_neg =? p1_pos)%Z then []
  else
    (if negb (p0_neg =? p0_pos)%Z && negb (p0_pos =? p1_pos)%Z then [(p0_neg, p0_pos, p1_pos)] else [])
    ++ (if negb (p0_neg =? p1_neg)%Z && negb (p1_pos =? p1_neg)%Z then [(p0_neg, p1_pos, p1_neg)] else []).

Definition tri_distinct (t : Z * Z * Z) : Prop :=
  let '(a, b, c) := t in a <> b /\ b <> c /\ a <> c.

(* ------------------------------------------------------------------ miter limit *)
(* fn miter_limit_is_exceeded(normal, miter_limit): normal.square_length() > limit^2 * FACTOR, the factor
   being regenerated from stroke.rs (Gen/Constants.v) *)
Definition miter_limit_is_exceeded (normal : qpt) (miter_limit : Q) : bool :=
  Qltb (miter_limit * miter_limit * miter_limit_factor) (sdot normal normal).

(* ------------------------------------------------------------------ reach geometry *)
(* x is the intersection of the lines  y . n1 = h  and  y . n2 = h  (both tangent to the disc of radius h) *)
Definition tangent_corner (n1 n2 : qpt) (h : Q) (x : qpt) : Prop :=
  sdot n1 n1 == 1 /\ sdot n2 n2 == 1 /\ sdot x n1 == h /\ sdot x n2 == h.
